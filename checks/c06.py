"""C06 All ranks issue matching collectives; no layout change can deadlock.

Stateless schedule exploration (deviation bounded / exhaustive for small worlds) of small
drivers on the real code under the simulated MPI world, in both blocking modes, plus
exhaustive exploration of the tie-break answers of the route search (hash-seed seam).
"""
import itertools
import time as _REAL_TIME

PROPERTY = 'C06'
LEVEL = 'model_checking'
TIMEOUT_S = 1500
RULE = ('scenarios S1 layout handler + transposes, S2 layout swapper + transposes, S3 setupCylindricalGrid (+plot-only rank) + setLayout + '
        'getMin/getMax/getBlockFromDict classes, S4 DiagnosticCollector collect+reduce, S5 setupSave/writeH5Dataset/loadFromFile/setupFromFile, '
        'S6 fullSimulation.main() with every single clock jump (rank r runs out of time at its k-th clock reading); each on several process '
        'grids, blocking modes S (all collectives synchronise) and N (rooted collectives return early); schedules of the tiny worlds T1/T2 on 2 ranks (and of S1 on 2 ranks in the thorough tier) enumerated without a bound, all other '
        'scenarios with a deviation bound (2-rank worlds 2, thorough 3-4; larger worlds 1-2; tiny 3-rank worlds 3-4); invariants per execution: matching signatures (op, root, count, datatype), no '
        'deadlock, all ranks terminate, per-rank collective traces and outcomes identical across all schedules; route seam: every connection '
        'graph on <= 4 layouts x every insertion order x every tie-break answer of min() over the unvisited set, plus the connection graphs '
        'of real layout sets (6-cycle of all 3-D orderings included) with bounded non-default answers: route map and connected verdict must '
        'not depend on the answers; seam binding: unpatched code under PYTHONHASHSEED 0..7 must produce a route map the seam enumerated; '
        'a state is one scheduling point of one execution, a transition one scheduler step')
ASSUMPTIONS = ['simmpi matching rules and blocking modes bracket conforming MPI behaviour', 'ranks share no memory: rank-local code is atomic between collectives',
               'the only hash-seed dependent construct is min() over the set of unvisited layout names (audited)']


def cases(tier, seed):
    out = []
    b4 = 1 if tier == 'quick' else 2
    for mode in ('S', 'N'):
        for grid in ([1, 2], [2, 1]):
            for sc in ('S1', 'S2', 'S3', 'S4', 'S5', 'S7'):
                b2 = None if sc == 'S1' and tier == 'thorough' else (4 if sc == 'S2' and tier == 'thorough' else (3 if tier == 'thorough' else 2))          # S2 with its two grids has up to 25 choice points: unbounded would exceed the execution cap
                if sc in ('S3', 'S7'):
                    b2 = 1 if tier == 'quick' else 2          # long scenarios (> 100 collectives)
                out.append({'kind': 'sched', 'scenario': sc, 'grid': grid, 'mode': mode, 'bound': b2, 'cost': 300})
        for grid in ([2, 2], [1, 3], [3, 1]):
            for sc in ('S1', 'S2', 'S3', 'S4', 'S5', 'S7'):
                # S3 / S7 have > 200 choice points on 3-4 ranks: two deviations would be > 10^5 executions each
                bb = 1 if sc in ('S3', 'S7') else b4
                nparts = 8 if bb >= 2 else 1          # two deviations on 3-4 ranks: 10^4 executions, split over 8 cases
                for part in range(nparts):
                    out.append({'kind': 'sched', 'scenario': sc, 'grid': grid, 'mode': mode, 'bound': bb, 'part': part, 'nparts': nparts, 'cost': 600})
        if tier == 'thorough':
            for sc in ('S1', 'S2', 'S3', 'S4', 'S5', 'S7'):
                out.append({'kind': 'sched', 'scenario': sc, 'grid': [2, 3], 'mode': mode, 'bound': 1, 'cost': 900})
        for sc in ('S3p',):
            for size in ((2, 3) if tier == 'quick' else (2, 3, 4, 5)):
                for draw in range(size):
                    out.append({'kind': 'sched', 'scenario': sc, 'grid': [size, 1], 'size': size, 'draw': draw, 'mode': mode, 'bound': 1 if size > 2 else 2, 'cost': 500})
        for g2, draw in (([1, 2], 0), ([2, 1], 2)) if tier == 'quick' else (([1, 2], 0), ([2, 1], 2), ([1, 2], 1), ([2, 2], 0), ([2, 2], 4), ([1, 3], 2)):
            out.append({'kind': 'sched', 'scenario': 'S2p', 'grid': g2, 'size': g2[0] * g2[1] + 1, 'draw': draw, 'mode': mode, 'bound': 2 if g2[0] * g2[1] == 2 else 1, 'cost': 400})
        for size in ((3, 4) if tier == 'quick' else (2, 3, 4, 5, 6)):
            out.append({'kind': 'sched', 'scenario': 'S8', 'grid': [size, 1], 'size': size, 'mode': mode, 'bound': 1, 'cost': 700})
        for g9 in ([4, 1], [5, 1]):
            out.append({'kind': 'sched', 'scenario': 'S9', 'grid': g9, 'mode': mode, 'bound': 1, 'cost': 300})
    # tiny worlds: every arrival order, unbounded
    for mode in ('S', 'N'):
        for sc in ('T1', 'T2'):
            for grid in ([1, 2], [2, 1], [1, 3]):
                if grid[0] * grid[1] == 2:
                    out.append({'kind': 'sched', 'scenario': sc, 'grid': grid, 'mode': mode, 'bound': None, 'cost': 400})
                elif tier == 'quick':
                    out.append({'kind': 'sched', 'scenario': sc, 'grid': grid, 'mode': mode, 'bound': 3, 'cost': 400})
                else:
                    for part in range(8):       # 4 deviations on 3 ranks: about 6*10^4 executions, split over 8 cases
                        out.append({'kind': 'sched', 'scenario': sc, 'grid': grid, 'mode': mode, 'bound': 4, 'part': part, 'nparts': 8, 'cost': 400})
    for grid in [[1, 2], [2, 1]] + ([[2, 2]] if tier == "thorough" else []):
        for mode in ('S', 'N'):
            out.append({'kind': 'clock', 'grid': grid, 'mode': mode, 'steps': 2, 'cost': 900})
    out.append({'kind': 'sched', 'scenario': 'S6', 'grid': [1, 2], 'mode': 'S', 'bound': 1, 'cost': 1500})
    # route seam
    for k in (2, 3, 4):
        edges = list(itertools.combinations(range(k), 2))
        for mask in range(1 << len(edges)):
            if k == 4:
                out.append({'kind': 'routes', 'k': k, 'mask': mask, 'bound': None, 'cost': 30})
        if k < 4:
            out.append({'kind': 'routes', 'k': k, 'mask': None, 'bound': None, 'cost': 30})
    real = ['perm3-22', 'perm3-12', 'perm3-21', 'phys', 'swapper', 'cycle6', 'chain5', 'perm3-1d', 'cycle5', 'theta6']
    for nm in real:
        if tier == 'quick':
            out.append({'kind': 'routes-real', 'name': nm, 'bound': 2, 'orders': 60, 'part': 0, 'nparts': 1, 'cost': 400})
        else:
            for part in range(12):
                out.append({'kind': 'routes-real', 'name': nm, 'bound': 3, 'orders': 240, 'part': part, 'nparts': 12, 'cost': 400})
    if tier == 'thorough':
        edges5 = list(itertools.combinations(range(5), 2))
        for mask in range(0, 1 << len(edges5)):
            out.append({'kind': 'routes', 'k': 5, 'mask': mask, 'bound': 2, 'cost': 60})
    for hs in range(8 if tier == 'quick' else 16):
        out.append({'kind': 'hashseed', 'seed': hs, 'cost': 50})
    return out


# ------------------------------------------------------------------------------ scenarios
NPTS = [6, 8, 7, 6]
PHYS = {'flux_surface': [0, 3, 1, 2], 'v_parallel': [0, 2, 1, 3], 'poloidal': [3, 2, 1, 0]}


def _scenario(name, case, scratch):
    """returns fn(rank) -> observable (must be schedule independent)"""
    import os
    import numpy as np
    from pgv import sim, lay
    MPI = sim.setup()
    from pygyro.model.layout import getLayoutHandler, LayoutSwapper
    from pygyro.model.grid import Grid
    from pygyro.initialisation.setups import setupCylindricalGrid, setupFromFile
    from pygyro.utilities.savingTools import setupSave
    from pygyro.diagnostics.diagnostic_collector import DiagnosticCollector
    nprocs = list(case['grid'])
    shape = [4, 5, 7, 6]
    eta = lay.eta_for(shape)
    G = lay.global_array(shape, np.float64)

    def fill(g):
        l = g.getLayout(g.currentLayout)
        gi = sim.global_index_arrays(l)
        g.getAllData()[:] = np.sin(1.0 + gi[0] * 1.3 + gi[1] * 0.7 + gi[2] * 2.1 + (gi[3] * 0.9 if len(gi) > 3 else 0))

    if name in ('S1', 'T1'):
        pairs = [('flux_surface', 'v_parallel'), ('v_parallel', 'poloidal'), ('poloidal', 'flux_surface'), ('flux_surface', 'poloidal')]
        if name == 'T1':
            pairs = pairs[:2]

        def fn(r):
            h = getLayoutHandler(MPI.COMM_WORLD, dict(PHYS), nprocs, eta)
            n = h.bufferSize
            a, b, c = np.full(n, np.nan), np.full(n, np.nan), np.full(n, np.nan)
            ok = True
            for k, (s, d) in enumerate(pairs):
                ls, ld = h.getLayout(s), h.getLayout(d)
                a[:] = np.nan
                a[:ls.size] = lay.block(G, ls).ravel()
                h.transpose(a, b, s, d, c if k % 2 else None)
                ok = ok and lay.same(b[:ld.size].reshape(ld.shape), lay.block(G, ld))
            return ok
        return fn
    if name in ('S2', 'T2'):
        lp = {'v_parallel_2d': [0, 2, 1], 'mode_solve': [1, 2, 0]}
        lv = {'v_parallel_1d': [0, 2, 1]}
        lpol = {'poloidal': [2, 1, 0]}
        seq = ['mode_solve', 'v_parallel_1d', 'poloidal', 'v_parallel_2d', 'mode_solve']
        if name == 'T2':
            seq = seq[:3]
        G3 = lay.global_array(shape[:3], np.complex128)

        def fn(r):
            s = LayoutSwapper(MPI.COMM_WORLD, [lp, lv, lpol], [nprocs, nprocs[0], nprocs[1]], eta[:3], 'mode_solve')
            g = Grid(eta[:3], [None] * 3, s, 'mode_solve', MPI.COMM_WORLD, dtype=np.complex128)
            g.getAllData()[:] = lay.block(G3, g.getLayout('mode_solve'))
            ok = True
            for nm in seq[1:]:
                g.setLayout(nm)
                ok = ok and lay.same(g.getAllData(), lay.block(G3, g.getLayout(nm)))
            if name == 'T2':
                return ok          # the tiny world stays tiny: every arrival order of it is enumerated without a bound
            # a complex grid WITH save memory: the save buffer serves as receive buffer while nothing is saved (its datatype
            # and size take part in the collectives), and holds the copy afterwards
            s2 = LayoutSwapper(MPI.COMM_WORLD, [lp, lv, lpol], [nprocs, nprocs[0], nprocs[1]], eta[:3], 'mode_solve')
            g2 = Grid(eta[:3], [None] * 3, s2, 'mode_solve', MPI.COMM_WORLD, dtype=np.complex128, allocateSaveMemory=True)
            g2.getAllData()[:] = lay.block(G3, g2.getLayout('mode_solve'))
            for k, nm in enumerate(seq[1:]):
                if k == 1:
                    g2.saveGridValues()
                g2.setLayout(nm)
                ok = ok and lay.same(g2.getAllData(), lay.block(G3, g2.getLayout(nm)))
            if len(seq) > 2:
                g2.restoreGridValues()
                ok = ok and lay.same(g2.getAllData(), lay.block(G3, g2.getLayout(g2.currentLayout)))
            return ok
        return fn
    if name == 'S2p':
        # layout swapper on a world with a plot-only rank (empty grids, communicator of its own), as setups.py does for the handler
        lp = {'v_parallel_2d': [0, 2, 1], 'mode_solve': [1, 2, 0]}
        lv = {'v_parallel_1d': [0, 2, 1]}
        lpol = {'poloidal': [2, 1, 0]}
        draw = case['draw']
        G3 = lay.global_array(shape[:3], np.complex128)

        def fn(r):
            comm = MPI.COMM_WORLD
            lc = comm.Split(r == draw, r)
            mine = r == draw
            npr = [1, 1] if mine else nprocs
            s = LayoutSwapper(lc, [lp, lv, lpol], [npr, npr[0], npr[1]], [[], [], []] if mine else eta[:3], 'mode_solve')
            g = Grid(eta[:3], [None] * 3, s, 'mode_solve', comm, dtype=np.complex128)
            if not mine:
                g.getAllData()[:] = lay.block(G3, g.getLayout('mode_solve'))
            out = []
            for nm in ('v_parallel_1d', 'poloidal', 'v_parallel_2d', 'mode_solve'):
                g.setLayout(nm)
                if not mine:
                    out.append(bool(lay.same(g.getAllData(), lay.block(G3, g.getLayout(nm)))))
                blk = g.getBlockFromDict({0: 1}, comm, draw)
                out.append(None if blk is None else (len(blk[2]), round(float(np.sum(np.abs(blk[3]))), 9)))
            return out
        return fn
    if name == 'S3':
        def fn(r):
            g, c, t = setupCylindricalGrid(layout='flux_surface', npts=list(NPTS), comm=MPI.COMM_WORLD, allocateSaveMemory=True)
            fill(g)
            out = []
            size = MPI.COMM_WORLD.Get_size()
            for lname in ('v_parallel', 'poloidal'):
                g.setLayout(lname)
                for draw in sorted(set([0, size - 1])):
                    out.append(g.getMin(draw))
                    out.append(g.getMax(draw))
                    # one fixed index on each axis (owned by some ranks only when that axis is distributed), two fixed indices
                    for ax, fix in ((0, 2), (3, 1), (2, 6), (1, 0), ([0, 3], [5, 1]), ([2, 0], [0, 5])):
                        out.append(g.getMin(draw, ax, fix))
                        out.append(g.getMax(draw, ax, fix))
            blk = g.getBlockFromDict({0: 2, 2: 3}, MPI.COMM_WORLD, 0)
            out.append(None if blk is None else float(np.sum(blk[3])))
            blk = g.getBlockFromDict({3: range(1, 4)}, MPI.COMM_WORLD, size - 1)
            out.append(None if blk is None else float(np.sum(blk[3])))
            return out
        return fn
    if name == 'S7':
        # block getter called with a communicator that numbers the processes differently from the grid's own
        def fn(r):
            comm = MPI.COMM_WORLD
            size = comm.Get_size()
            g, c, t = setupCylindricalGrid(layout='v_parallel', npts=list(NPTS), comm=comm)
            fill(g)
            rev = comm.Split(0, size - 1 - r)
            out = []
            gc, cc, tc = setupCylindricalGrid(layout='poloidal', npts=list(NPTS), comm=comm, dtype=np.complex128)
            fill(gc)
            gc.getAllData()[:] = gc.getAllData() * (1.0 + (0.5j if r % 2 else 0.0))      # purely real data on the even ranks only
            for root in sorted(set([0, size - 1])):
                for d in ({0: 2}, {3: range(0, 2), 2: 1}):
                    blk = gc.getBlockFromDict(d, comm, root)
                    out.append(('complex', root, None if blk is None else round(float(np.sum(blk[3])), 9)))
            for cm, nm in ((comm, 'world'), (rev, 'reversed')):
                for root in sorted(set([0, size - 1])):
                    for d in ({0: 2, 2: 3}, {3: range(1, 4)}, {1: 5}):
                        blk = g.getBlockFromDict(d, cm, root)
                        if cm.Get_rank() == root:
                            out.append((nm, root, 'root got nothing' if blk is None else round(float(np.sum(blk[3])), 9), None if blk is None else len(blk[2])))
                        else:
                            out.append((nm, root, 'non-root returned data' if blk is not None else None))
            return out
        return fn
    if name == 'S3p':
        draw = case['draw']

        def fn(r):
            comm = MPI.COMM_WORLD
            g, c, t = setupCylindricalGrid(layout='v_parallel', npts=list(NPTS), comm=comm, plotThread=True, drawRank=draw)
            if r != draw:
                fill(g)
            out = []
            for lname in ('poloidal', 'flux_surface'):
                g.setLayout(lname)
                out.append(g.getMin(draw))
                out.append(g.getMax(draw))
                out.append(g.getMin(draw, 0, 3))
                out.append(g.getMax(draw, [2, 3], [6, 0]))
            blk = g.getBlockFromDict({0: 1, 3: 2}, comm, draw)
            out.append(None if blk is None else float(np.sum(blk[3])))
            return out
        return fn
    if name == 'S9':
        # more processes than points along the distributed dimension: some (non-plot) ranks own an empty block in both
        # layouts and must still take part in every collective
        shp = [3, 3, 8]
        eta9 = lay.eta_for(shp)
        G9 = lay.global_array(shp, np.float64)
        L9 = {'a': [0, 1, 2], 'b': [1, 0, 2], 'c': [2, 1, 0]}

        def fn(r):
            h = getLayoutHandler(MPI.COMM_WORLD, dict(L9), [nprocs[0] * nprocs[1]], eta9)
            n = max(h.bufferSize, 1)
            a, b, c = np.full(n, np.nan), np.full(n, np.nan), np.full(n, np.nan)
            ok = True
            for k, (s, d) in enumerate((('a', 'b'), ('b', 'a'), ('a', 'c'), ('c', 'b'))):
                ls, ld = h.getLayout(s), h.getLayout(d)
                a[:] = np.nan
                a[:ls.size] = lay.block(G9, ls).ravel()
                h.transpose(a, b, s, d, c if k % 2 else None)
                ok = ok and lay.same(b[:ld.size].reshape(ld.shape), lay.block(G9, ld))
            # a Grid on the same handler: ranks that are empty in the current layout (but not in every layout) take part in the
            # min/max reductions and contribute nothing
            g = Grid(eta9, [None] * 3, h, 'a', MPI.COMM_WORLD)
            g.getAllData()[:] = lay.block(G9, g.getLayout('a'))
            out = [ok]
            for nm in ('c', 'b', 'a'):
                g.setLayout(nm)
                for root in (0, MPI.COMM_WORLD.Get_size() - 1):
                    out.append((g.getMin(root), g.getMax(root), g.getMin(root, 2, 5), g.getMax(root, [0, 2], [1, 7])))
            return out
        return fn
    if name == 'S8':
        # two independent simulations on the two halves of the world: everything must stay on the sub-communicator
        os.makedirs(os.path.join(scratch, 'simulation_0'), exist_ok=True)
        def fn(r):
            world = MPI.COMM_WORLD
            size = world.Get_size()
            color = 0 if r < (size + 1) // 2 else 1
            sub = world.Split(color, r)
            g, c, t = setupCylindricalGrid(layout='v_parallel', npts=list(NPTS), comm=sub)
            fill(g)
            if color == 0:
                folder = setupSave(c, 'sim0', sub)
            else:
                # no folder name given and simulation_0 exists already: the root numbers a new folder and tells the others
                folder = setupSave(c, None, sub)
                assert folder == 'simulation_1', 'setupSave returned %r on rank %d' % (folder, r)
            sub.Barrier()
            g2, c2, t2 = setupFromFile(folder, comm=sub, layout='poloidal')          # folder without checkpoint: fresh initialisation
            out = [t2, g2.currentLayout]
            if color == 0:
                out.append(g2.getMin(0))
                out.append(g2.getMax(0))
                g2.writeH5Dataset(folder, 3)
                g3, c3, t3 = setupFromFile(folder, comm=sub)
                out.append((t3, g3.currentLayout, g3.getMax(sub.Get_size() - 1, 0, 2)))
            else:
                out.append(g2.getMax(0, 0, 2))
                dc_min = g.getMin(sub.Get_size() - 1)
                out.append(dc_min)
            return out
        return fn
    if name == 'S4':
        def fn(r):
            comm = MPI.COMM_WORLD
            g, c, t = setupCylindricalGrid(layout='v_parallel', npts=list(NPTS), comm=comm)
            fill(g)
            np2 = g.getLayout('v_parallel').nprocs[:2]
            h = getLayoutHandler(comm, {'v_parallel_2d': [0, 2, 1], 'mode_solve': [1, 2, 0]}, np2, g.eta_grid[:3])
            phi = Grid(g.eta_grid[:3], [None] * 3, h, 'v_parallel_2d', comm, dtype=np.complex128)
            fill(phi)
            dc = DiagnosticCollector(comm, 2, c.dt, g, phi)
            dc.collect(g, phi, 0)
            dc.collect(g, phi, c.dt)
            dc.reduce()
            # sums are combined in arrival order: equal only up to rounding, so compare 11 significant digits
            return [[float('%.10e' % v) for v in x] for x in (dc.l2PhiResult, dc.l2GridResult, dc.l1Result, dc.nPartResult, dc.min_val, dc.max_val, dc.KE_val)] if r == 0 else None
        return fn
    if name == 'S5':
        def fn(r):
            comm = MPI.COMM_WORLD
            g, c, t = setupCylindricalGrid(layout='poloidal', npts=list(NPTS), comm=comm)
            fill(g)
            f1 = setupSave(c, None, comm, root=comm.Get_size() - 1)      # new automatic folder, non-0 root
            f2 = setupSave(c, 'named', comm)                                # new named folder, root 0
            f3 = setupSave(c, 'named', comm)                                # existing folder
            g.writeH5Dataset(f2, 7)
            ref = g.getAllData().copy()
            g.getAllData()[:] = 0
            g.loadFromFile(f2)
            ok = np.array_equal(g.getAllData(), ref)
            g2, c2, t2 = setupFromFile(f2, comm=comm, layout='flux_surface')
            return (f1, f2, f3, ok, t2, g2.currentLayout, float(g2.getAllData().sum()))
        return fn
    raise KeyError(name)


def _explore_scenario(case):
    import os
    from pgv import sim, simmpi, explore, env
    sim.setup()
    name = case['scenario']
    seen = {}

    def V(sig, what):
        seen.setdefault(sig, {'sig': sig, 'what': what, 'detail': {}})
    tag = '%s grid %r mode %s' % (name, case['grid'], case['mode'])
    traces = {}
    outcomes = {}
    npoints = [0]
    arrivals = set()

    def run(ch):
        d = env.scratch_dir('c06')
        try:
            if name == 'S6':
                sim.write_constants(os.path.join(d, 'c.json'), npts=NPTS, dt=2, iotaVal=0.0, eps=1e-3, m=2, n=1)
                res, w = sim.run_driver(case['grid'], d, 2, 1, 'out', chooser=explore.world_chooser(ch), mode=case['mode'])
                cps = sim.read_checkpoints(os.path.join(d, 'out'))
                obs = tuple((k, float(abs(v[0]).sum())) for k, v in sorted(cps.items()))
            elif name in ('S3p', 'S8', 'S2p'):
                fn = _scenario(name, case, d)
                w = simmpi.World(case['size'], chooser=explore.world_chooser(ch), mode=case['mode'])
                import io, sys
                old, oc = sys.stdout, os.getcwd()
                sys.stdout = io.StringIO()
                os.chdir(d)
                try:
                    res = w.run(fn)
                finally:
                    sys.stdout = old
                    os.chdir(oc)
                obs = repr(res)
            else:
                fn = _scenario(name, case, d)
                res, w = sim.run_world(case['grid'], fn, chooser=explore.world_chooser(ch), mode=case['mode'], cwd=d)
                obs = repr(res)
        except (simmpi.CollectiveMismatch, simmpi.Deadlock) as e:
            return ('PROTOCOL', type(e).__name__, str(e)[:300])
        except Exception as e:  # noqa
            return ('EXC', type(e).__name__, str(e)[:300])
        finally:
            env.rm(d)
        npoints[0] += w.nsched
        tr = tuple(tuple(t) for t in w.trace)
        traces.setdefault(hash(tr), tr)
        return ('OK', obs)

    def on_exec(choices, obs, points):
        if obs[0] == 'PROTOCOL':
            V('protocol:' + obs[1], 'schedule %r: %s: %s (%s)' % (choices, obs[1], obs[2], tag))
        elif obs[0] == 'EXC':
            V('exception:' + obs[1], 'schedule %r: %s: %s (%s)' % (choices, obs[1], obs[2], tag))
        else:
            outcomes.setdefault(obs[1], choices)
        return len(seen) > 3
    roots = None
    if case.get('nparts', 1) > 1:
        roots = explore.roots_for_part(run, case['part'], case['nparts'])
        traces.clear()
        npoints[0] = 0
    st = explore.explore(run, bound=case['bound'], on_exec=on_exec, max_exec=60000, roots=roots)
    if len(traces) > 1:
        a, b = list(traces.values())[:2]
        diff = next(((r, i, x, y) for r in range(len(a)) for i, (x, y) in enumerate(itertools.zip_longest(a[r], b[r])) if x != y), None)
        V('trace-depends-on-schedule', '%d distinct per-rank collective traces; first difference %r (%s)' % (len(traces), diff, tag))
    if len(outcomes) > 1:
        V('outcome-depends-on-schedule', '%d distinct outcomes, e.g. schedules %r (%s)' % (len(outcomes), list(outcomes.values())[:2], tag))
    ncoll = sum(len(t) for t in next(iter(traces.values()))) if traces else 0
    return {'evals': st['executions'], 'nontrivial': st['executions'] if st['points_max'] > 0 else 0, 'violations': list(seen.values()),
            'stats': {'states': npoints[0], 'transitions': npoints[0], 'schedules': st['executions'], 'max_choice_points': st['points_max'],
                      'capped': 1 if st['capped'] else 0, 'collectives_in_trace': ncoll},
            'sample': {'scenario': tag, 'bound': case['bound'], 'schedules': st['executions'], 'choice_points': st['points_max'],
                       'distinct_outcomes': len(outcomes), 'distinct_traces': len(traces)}}


# ------------------------------------------------------------------------------ clock answers
class _Clock:
    """time-module stand-in: rank `who` sees the clock jump far ahead at its k-th reading"""

    def __init__(self, who, k):
        self.who, self.k = who, k
        self.calls = {}

    def time(self):
        from pgv import simmpi
        r = simmpi.current_rank()
        n = self.calls.get(r, 0)
        self.calls[r] = n + 1
        if self.who is not None and r == self.who and n >= self.k:
            return 1.0e7
        return 0.0

    def __getattr__(self, name):
        return getattr(_REAL_TIME, name)


def _clock_case(case):
    import os
    from pgv import sim, simmpi, env
    sim.setup()
    seen = {}

    def V(sig, what):
        seen.setdefault(sig, {'sig': sig, 'what': what, 'detail': {}})
    grid = case['grid']
    size = grid[0] * grid[1]
    tag = 'driver grid %r mode %s' % (grid, case['mode'])

    def one(who, k):
        d = env.scratch_dir('c06k')
        clk = _Clock(who, k)
        try:
            sim.write_constants(os.path.join(d, 'c.json'), npts=NPTS, dt=2, iotaVal=0.0, eps=1e-3, m=2, n=1)
            res, w = sim.run_driver(grid, d, 2 * case['steps'], 1, 'out', tmax=1000, mode=case['mode'], clock=clk)
            cps = sorted(sim.read_checkpoints(os.path.join(d, 'out')))
            return ('OK', cps, max(clk.calls.values()), [len(t) for t in w.trace], w.nsched)
        except (simmpi.CollectiveMismatch, simmpi.Deadlock) as e:
            return ('PROTOCOL', type(e).__name__, str(e)[:300], 0, 0)
        except Exception as e:  # noqa
            return ('EXC', type(e).__name__, str(e)[:300], 0, 0)
        finally:
            env.rm(d)
    base = one(None, 0)
    if base[0] != 'OK':
        V('clock-default:' + base[1], '%s: %s (%s)' % (base[1], base[2], tag))
        return {'evals': 1, 'nontrivial': 0, 'violations': list(seen.values()), 'stats': {}, 'sample': None}
    ncalls = base[2]
    evals = 1
    pts = base[4]
    ends = set()
    for who in range(size):
        for k in range(ncalls + 1):
            r = one(who, k)
            evals += 1
            pts += r[4]
            if r[0] == 'PROTOCOL':
                V('clock:' + r[1], 'rank %d out of time from its clock reading #%d: %s: %s (%s)' % (who, k, r[1], r[2], tag))
            elif r[0] == 'EXC':
                V('clock-exception:' + r[1], 'rank %d out of time from its clock reading #%d: %s: %s (%s)' % (who, k, r[1], r[2], tag))
            else:
                ends.add(tuple(r[1]))
                if len(set(r[3])) > 1 and False:
                    pass
    return {'evals': evals, 'nontrivial': evals - 1, 'violations': list(seen.values()),
            'stats': {'states': pts, 'transitions': pts, 'clock_answers': evals - 1, 'distinct_final_file_sets': len(ends)},
            'sample': {'driver': tag, 'clock_readings_per_rank': ncalls, 'answers': evals - 1, 'distinct_final_file_sets': len(ends)}}


# ------------------------------------------------------------------------------ route seam
def _make_min(ch, stats):
    def seam_min(it, key=None, **kw):
        items = list(it)
        if key is None:
            return __builtins__['min'](items) if isinstance(__builtins__, dict) else __import__('builtins').min(items)
        import builtins
        m = builtins.min(key(x) for x in items)
        tied = sorted(x for x in items if key(x) == m)
        if len(tied) == 1:
            return tied[0]
        stats['ties'] = stats.get('ties', 0) + 1
        return tied[ch(len(tied))]
    return seam_min


def _route_map_of(direct, ch, stats):
    """run the real _makeConnectionMap with the min() seam; returns (verdict, route map)"""
    from pgv import sim
    sim.setup()
    import pygyro.model.layout as L
    obj = L.LayoutHandler.__new__(L.LayoutHandler)
    old = L.__dict__.get('min')
    L.min = _make_min(ch, stats)
    try:
        ok = obj._makeConnectionMap({k: list(v) for k, v in direct.items()})
    finally:
        if old is None:
            del L.min
        else:
            L.min = old
    rm = getattr(obj, '_route_map', None)
    return (bool(ok), repr(sorted((a, sorted(b.items())) for a, b in rm.items())) if rm is not None else None)


def _direct_from(order, edges):
    """DirectConnections exactly as LayoutHandler.__init__ builds it for layouts in this order"""
    m = [(n, []) for n in order]
    for n, a in enumerate(order):
        for i, b in enumerate(order[:n]):
            if (a, b) in edges or (b, a) in edges:
                m[i][1].append(a)
                m[n][1].append(b)
    return dict(m)


def _routes_case(case):
    from pgv import explore
    names = 'abcde'[:case['k']]
    alledges = list(itertools.combinations(names, 2))
    masks = [case['mask']] if case['mask'] is not None else range(1 << len(alledges))
    seen = {}
    evals = execs = nontriv = 0
    for mask in masks:
        edges = set(e for i, e in enumerate(alledges) if mask >> i & 1)
        for order in itertools.permutations(names):
            direct = _direct_from(list(order), edges)
            results = set()
            stats = {}

            def run(ch):
                return _route_map_of(direct, ch, stats)
            st = explore.explore(run, bound=case['bound'], on_exec=lambda c, o, p: results.add(o) and None)
            evals += 1
            execs += st['executions']
            if st['executions'] > 1:
                nontriv += 1
            if len(results) > 1:
                sig = 'route-map-depends-on-tie-break'
                seen.setdefault(sig, {'sig': sig, 'what': 'graph %r inserted as %r: %d different route maps over %d tie-break answer sequences' % (
                    sorted(edges), order, len(results), st['executions']), 'detail': {}})
    return {'evals': execs, 'nontrivial': nontriv, 'violations': list(seen.values()),
            'stats': {'states': execs, 'transitions': execs, 'route_graph_orders': evals, 'route_executions': execs}, 'sample': {'k': case['k'], 'mask': case['mask'], 'orders': evals, 'executions': execs}}


def _real_sets():
    from pgv.lay import perms, name_of
    P3 = {name_of(p): list(p) for p in perms(3)}
    sets = {
        'perm3-22': (P3, [2, 2]), 'perm3-12': (P3, [1, 2]), 'perm3-21': (P3, [2, 1]), 'perm3-1d': (P3, [2]),
        'phys': ({'flux_surface': [0, 3, 1, 2], 'v_parallel': [0, 2, 1, 3], 'poloidal': [3, 2, 1, 0]}, [2, 2]),
    }
    return sets


def _edges_of_layout_set(L, nprocs):
    names = list(L)
    edges = set()
    for a, b in itertools.combinations(names, 2):
        diff = sum(1 for pos, n in enumerate(nprocs) if n > 1 and L[a][pos] != L[b][pos])
        if diff < 2:
            edges.add((a, b))
    return names, edges


def _routes_real(case):
    from pgv import explore
    nm = case['name']
    sets = _real_sets()
    if nm in sets:
        names, edges = _edges_of_layout_set(*sets[nm])
    elif nm == 'swapper':
        names = ['v_parallel_2d', 'mode_solve', 'v_parallel_1d', 'poloidal']
        edges = {('v_parallel_2d', 'mode_solve'), ('v_parallel_2d', 'v_parallel_1d'), ('v_parallel_2d', 'poloidal')}
    elif nm.startswith('cycle'):
        k = int(nm[5:])
        names = ['xyz', 'xzy', 'zxy', 'zyx', 'yzx', 'yxz', 'q'][:k]
        edges = {(names[i], names[(i + 1) % k]) for i in range(k)}
    elif nm == 'theta6':
        names = ['a', 'b', 'c', 'd', 'e', 'f']
        edges = {('a', 'b'), ('b', 'c'), ('c', 'd'), ('a', 'e'), ('e', 'f'), ('f', 'd'), ('b', 'e')}
    else:
        names = ['l0', 'l1', 'l2', 'l3', 'l4']
        edges = {(names[i], names[i + 1]) for i in range(4)}
    seen = {}
    execs = graphs = nontriv = 0
    orders = list(itertools.permutations(names))
    step = max(1, len(orders) // case['orders'])
    enumerated = {}
    for order in orders[::step][case.get('part', 0)::case.get('nparts', 1)]:
        direct = _direct_from(list(order), edges)
        results = set()
        stats = {}

        def run(ch):
            return _route_map_of(direct, ch, stats)
        st = explore.explore(run, bound=case['bound'], on_exec=lambda c, o, p: results.add(o) and None)
        graphs += 1
        execs += st['executions']
        if st['executions'] > 1:
            nontriv += 1
        if len(results) > 1:
            sig = 'route-map-depends-on-tie-break'
            seen.setdefault(sig, {'sig': sig, 'what': 'layout set %s inserted as %r: %d different route maps over %d tie-break answer sequences (<= %r non-default answers)' % (
                nm, order, len(results), st['executions'], case['bound']), 'detail': {}})
    return {'evals': execs, 'nontrivial': nontriv, 'violations': list(seen.values()),
            'stats': {'states': execs, 'transitions': execs, 'route_graph_orders': graphs, 'route_executions': execs},
            'sample': {'layout_set': nm, 'orders': graphs, 'executions': execs}}


PROBE = r'''
import sys, json
sys.path.insert(0, %r)
from pgv import sim
sim.setup()
import pygyro.model.layout as L
import itertools
out = {}
def direct_from(order, edges):
    m = [(n, []) for n in order]
    for n, a in enumerate(order):
        for i, b in enumerate(order[:n]):
            if (a, b) in edges or (b, a) in edges:
                m[i][1].append(a); m[n][1].append(b)
    return dict(m)
for nm, names, edges in json.loads(sys.argv[1]):
    edges = set(tuple(e) for e in edges)
    for order in list(itertools.permutations(names))[::7]:
        obj = L.LayoutHandler.__new__(L.LayoutHandler)
        ok = obj._makeConnectionMap(direct_from(list(order), edges))
        out[nm + ':' + ''.join(o[0] for o in order) + str(hash(order) %% 1)] = [bool(ok), repr(sorted((a, sorted(b.items())) for a, b in obj._route_map.items()))]
        out[nm + ':' + '|'.join(order)] = out.pop(nm + ':' + ''.join(o[0] for o in order) + str(hash(order) %% 1))
print(json.dumps(out))
'''


def _hashseed_case(case):
    """binding of the seam: unpatched code in a fresh interpreter with a given PYTHONHASHSEED"""
    import json
    import os
    import subprocess
    import sys
    from pgv import env, explore
    sets = []
    for nm, (L, nprocs) in _real_sets().items():
        names, edges = _edges_of_layout_set(L, nprocs)
        sets.append((nm, names, sorted(edges)))
    names6 = ['xyz', 'xzy', 'zxy', 'zyx', 'yzx', 'yxz']
    sets.append(('cycle6', names6, [(names6[i], names6[(i + 1) % 6]) for i in range(6)]))
    e = dict(os.environ)
    e['PYTHONHASHSEED'] = str(case['seed'])
    p = subprocess.run([sys.executable, '-c', PROBE % env.VERIF, json.dumps(sets)], capture_output=True, text=True, env=e, timeout=600)
    seen = {}
    if p.returncode != 0:
        return {'evals': 1, 'nontrivial': 0, 'violations': [{'sig': 'hashseed-probe-failed', 'what': p.stderr[-500:], 'detail': {}}], 'stats': {}, 'sample': None}
    got = json.loads(p.stdout.strip().splitlines()[-1])
    evals = 0
    byname = {nm: (names, set(tuple(x) for x in edges)) for nm, names, edges in sets}
    for key, (ok, rm) in got.items():
        nm, order = key.split(':')
        order = order.split('|')
        names, edges = byname[nm]
        direct = _direct_from(order, edges)
        results = set()
        explore.explore(lambda ch: _route_map_of(direct, ch, {}), bound=None, max_exec=400, on_exec=lambda c, o, p: results.add(o) and None)
        evals += 1
        if (ok, rm) not in results:
            sig = 'hashseed-route-not-enumerated-by-seam'
            seen.setdefault(sig, {'sig': sig, 'what': 'PYTHONHASHSEED=%d layout set %s order %r: observed route map is none of the %d the seam produced' % (case['seed'], nm, order, len(results)), 'detail': {}})
        if len(results) > 1:
            sig = 'route-map-depends-on-tie-break'
            seen.setdefault(sig, {'sig': sig, 'what': 'layout set %s order %r: %d different route maps over the tie-break answers' % (nm, order, len(results)), 'detail': {}})
    return {'evals': evals, 'nontrivial': evals, 'violations': list(seen.values()), 'stats': {'states': evals, 'transitions': evals, 'hashseed_probes': 1},
            'sample': {'PYTHONHASHSEED': case['seed'], 'route_maps_compared': evals}}


def run_case(case):
    k = case['kind']
    if k == 'sched':
        return _explore_scenario(case)
    if k == 'clock':
        return _clock_case(case)
    if k == 'routes':
        return _routes_case(case)
    if k == 'routes-real':
        return _routes_real(case)
    return _hashseed_case(case)
