"""C14 Elliptic solver returns the per-mode Galerkin solution of the radial equation."""
import itertools

PROPERTY = 'C14'
LEVEL = 'exploration'
TIMEOUT_S = 1200
RULE = ('radial degree 1..5 x cell count {3,4,6} x spline path (uniform-cubic fast path / general; uniform radial breakpoints, see DESIGN note A) x n_theta in '
        '{4,5} (even / odd: signed mode numbers) x coefficient menus (defaults; cylindrical Laplacian 1/r, 0, 1/r^2; quasi-neutrality-like with n0, Te '
        'profiles; polynomial) x A in {-1,-2} x Neumann index lists per side {[],[0],[0,1,-1]} x quadrature degree {2d, 2d+2} x process counts 1-3 (modes '
        'distributed); right-hand sides = unit impulse at every radial node of every mode (discrete path) and monomials (function path); oracle = independent '
        'dense Galerkin assembly (same Gauss-Legendre rule, exact-rational basis values, integration by parts of the second-derivative term) + dense solve; '
        'Dirichlet values exactly 0; an impulse in mode m changes only mode m; pure-Neumann with C = 0 must raise ValueError; an evaluation is one mode solve; '
        'non-trivial = every solve (no trivial right-hand sides)')
ASSUMPTIONS = ['pgv.refspline', 'numpy dense solve and Gauss-Legendre nodes', 'reference systems with condition number > 1e11 are skipped (counted)',
               'non-uniform radial breakpoints are outside the quantifier (DESIGN.md note A)']

MENUS = ['default', 'laplace', 'qn', 'poly']
NEUM = [([], []), ([0], []), ([], [0]), ([0, 1, -1], []), ([0], [1, -1]), ([1], [-1]), ([0, -1], [1])]      # the last two treat +m and -m differently


def cases(tier, seed):
    out = []
    degs = (1, 2, 3, 4, 5)
    cells = (3, 4, 6) if tier == 'thorough' else (3, 6)
    for d, nc, path, nq, menu in itertools.product(degs, cells, ('general', 'cu'), (4, 5), MENUS):
        if path == 'cu' and d != 3:
            continue
        if tier == 'quick' and menu in ('poly',) and d in (1, 5):
            continue
        out.append({'kind': 'solve', 'd': d, 'nc': nc, 'path': path, 'nq': nq, 'menu': menu, 'tier': tier, 'cost': (d + nc) ** 2 * nq})
    out.append({'kind': 'illposed', 'cost': 5})
    # the quasi-neutrality subclass overrides solveEquation (m = 0 convention): same oracle, modes distributed over 1-3 ranks
    for d, path, nq, (adiab, chi) in itertools.product((2, 3), ('general', 'cu'), (4, 5), ((True, 0), (True, 1), (False, None))):
        if path == 'cu' and d != 3:
            continue
        out.append({'kind': 'qnsolver', 'd': d, 'nc': 5, 'path': path, 'nq': nq, 'adiabatic': adiab, 'chi': chi, 'B': 1.0 if (d + nq) % 2 else 1.3, 'cost': 200})
    # the documented profile arguments of the subclass (n0, Te, and n0derivNormalised or n0deriv) with non-default profiles
    for d, path, nq, (adiab, chi), prof in ((3, 'cu', 4, (True, 1), 'normalised'), (3, 'general', 5, (True, 0), 'deriv'), (2, 'general', 4, (False, None), 'deriv'),
                                            (3, 'cu', 5, (False, None), 'normalised'), (3, 'cu', 4, (True, 0), 'both')):
        out.append({'kind': 'qnsolver', 'd': d, 'nc': 5, 'path': path, 'nq': nq, 'adiabatic': adiab, 'chi': chi, 'B': 1.3, 'prof': prof, 'cost': 200})
    return out


def _menu(name, c, A):
    import numpy as np
    from pygyro.initialisation import initialiser_funcs as init
    if name == 'default':
        return dict(A=lambda r: A, B=lambda r: 0.0, C=lambda r: 0.0, D=lambda r: -1.0, E=lambda r: 1.0)
    if name == 'laplace':
        return dict(A=lambda r: A, B=lambda r: -1.0 / r, C=lambda r: 0.0, D=lambda r: -1.0 / r ** 2, E=lambda r: 1.0)
    if name == 'qn':
        n0 = lambda r: init.n0(r, c.CN0, c.kN0, c.deltaRN0, c.rp)                      # noqa
        Te = lambda r: init.Te(r, c.CTe, c.kTe, c.deltaRTe, c.rp)                      # noqa
        g = lambda r: init.n0deriv_normalised(r, c.kN0, c.rp, c.deltaRN0)              # noqa
        return dict(A=lambda r: A, B=lambda r: -(1 / r + g(r)), C=lambda r: 1 / Te(r), D=lambda r: -1 / r ** 2, E=lambda r: 1 / n0(r))
    # scalar-only callables (a conditional, math.*): the solver must evaluate user functions point by point
    import math
    return dict(A=lambda r: A, B=lambda r: (0.3 * r - 1.0) if r > 0 else 0.0, C=lambda r: (0.5 + 0.1 * r * r) if r > 0 else 0.0,
                D=lambda r: -(1.0 + 0.2 * math.sqrt(r * r)), E=lambda r: (2.0 - 0.1 * r) if r > 0 else 0.0)


def _rhs_list(nq, nz, nr):
    """(kind, array[mode, z, r]) right-hand sides: impulse k at radial node k%nr of mode (k//nr)%nq in plane z = k%nz with a complex
    weight, a dense one, the dense one at amplitude 1e-20 (linearity: nothing may be treated as 'zero' by an absolute tolerance),
    and one whose lines differ in scale by 17 orders of magnitude"""
    import numpy as np
    out = []
    for k in range(nr * nq):
        R = np.zeros((nq, nz, nr), dtype=complex)
        R[(k // nr) % nq, k % nz, k % nr] = 1.0 - 0.5j
        out.append(('impulse', R))
    dense = np.fromfunction(lambda a, b, cc: np.cos(1.0 + a + 2 * cc) + 1j * np.sin(0.3 + b + cc * a), (nq, nz, nr))
    out.append(('dense', dense))
    out.append(('tiny', dense * 1e-20))
    mixed = dense.copy()
    mixed[1] *= 1e-10
    mixed[:, 1] *= 1e7
    out.append(('mixed-scales', mixed))
    return out


def _dense_reference(S, breaks, nq_deg, M):
    """K0 (theta independent part), KD (m^2 part), Mass; rows = test functions, columns = trial functions"""
    import numpy as np
    from numpy.polynomial.legendre import leggauss
    pts, wts = leggauss(nq_deg // 2 + 1)
    nb = S.nc
    K0 = np.zeros((nb, nb))
    KD = np.zeros((nb, nb))
    MM = np.zeros((nb, nb))
    for a0, b0 in zip(breaks[:-1], breaks[1:]):
        for p, w in zip(pts, wts):
            x = (a0 + b0) / 2 + p * (b0 - a0) / 2
            ww = w * (b0 - a0) / 2
            Bv = S.row(x, 0)
            Bd = S.row(x, 1)
            K0 += ww * (-M['A'](x) * np.outer(Bd * x + Bv, Bd) + M['B'](x) * x * np.outer(Bv, Bd) + M['C'](x) * x * np.outer(Bv, Bv))
            KD += ww * M['D'](x) * x * np.outer(Bv, Bv)
            MM += ww * M['E'](x) * x * np.outer(Bv, Bv)
    return K0, KD, MM


def _solve_case(case):
    import numpy as np
    from pgv import sim, ops, refspline, simmpi
    MPI = sim.setup()
    from pygyro.splines.splines import make_knots, BSplines
    from pygyro.model.layout import getLayoutHandler
    from pygyro.model.grid import Grid
    from pygyro.poisson.poisson_solver import DiffEqSolver
    from pygyro.initialisation.constants import Constants
    viols = {}

    def V(sig, what):
        viols.setdefault(sig, {'sig': sig, 'what': what, 'detail': {}})
    c = ops.generic_constants(Constants())
    d, nc, nq = case['d'], case['nc'], case['nq']
    breaks = np.linspace(0.1, 14.5, nc + 1) if case['menu'] == 'qn' else (np.linspace(1.0, 4.0, nc + 1) if nc != 4 else np.linspace(0.7, 2.3, nc + 1))
    rs = BSplines(make_knots(breaks, d, False), d, False, case['path'] == 'cu')
    Sg = refspline.RefSpace(BSplines(make_knots(breaks, d, False), d, False, False))
    rpts = np.asarray(rs.greville, dtype=float)
    nr = len(rpts)
    nz = 2
    tag0 = 'degree=%d cells=%d path=%s ntheta=%d menu=%s' % (d, nc, case['path'], nq, case['menu'])
    evals = skipped = 0
    worst = 0.0
    mv = np.fft.fftfreq(nq, 1 / nq)
    combos = list(itertools.product((-1.0, -2.0), NEUM, (2 * d, 2 * d + 1, 2 * d + 2)))
    if case['tier'] == 'quick':
        combos = [x for k, x in enumerate(combos) if k % 3 == (d + nc) % 3]
    for A, (lN, uN), qdeg in combos:
        M = _menu(case['menu'], c, A)
        tag = '%s A=%g lNeumann=%r uNeumann=%r quad=%d' % (tag0, A, lN, uN, qdeg)
        K0, KD, MM = _dense_reference(Sg, breaks, qdeg, M)
        for p in ((1, 2, 3) if (A, qdeg) == (-1.0, 2 * d) else (1,)):
            if p > min(nr, nq):
                continue
            eta = [rpts, np.linspace(0, 2 * np.pi, nq, endpoint=False), np.linspace(0, 1, nz)]
            rpts2 = breaks[0] + (breaks[-1] - breaks[0]) * (np.arange(nr) / (nr - 1.0)) ** 1.5          # as many nodes, elsewhere

            def fn(r):
                comm = MPI.COMM_WORLD
                h = getLayoutHandler(comm, {'v_parallel_2d': [0, 2, 1], 'mode_solve': [1, 2, 0]}, [p], eta)
                phi = Grid(eta, [None] * 3, h, 'mode_solve', comm, dtype=np.complex128)
                rho = Grid(eta, [None] * 3, h, 'mode_solve', comm, dtype=np.complex128)
                ps = DiffEqSolver(qdeg, rs, nr, nq, lNeumannIdx=list(lN), uNeumannIdx=list(uN), ddrFactor=M['A'], drFactor=M['B'], rFactor=M['C'],
                                  ddThetaFactor=M['D'], rhoFactor=M['E'])
                l = rho.getLayout('mode_solve')
                res = []
                # right-hand sides: impulse k at radial node k%nr of mode (k//nr)%nq in plane z = k%nz, complex weight
                rhs = [R for _, R in _rhs_list(nq, nz, nr)]
                sl = tuple(slice(int(x), int(y)) for x, y in zip(l.starts, l.ends))
                for R in rhs:
                    rho.getAllData()[:] = R[sl]
                    phi.getAllData()[:] = np.nan
                    ps.solveEquation(phi, rho)
                    res.append(phi.getAllData().copy())
                fres = []
                for k in range(min(d, 2) + 1):
                    phi.getAllData()[:] = np.nan
                    ps.solveEquationForFunction(phi, lambda x, k=k: x ** k)
                    fres.append(phi.getAllData().copy())
                # the same solver object on a second grid with as many radial nodes at OTHER positions (function right-hand side: the
                # solution spline is evaluated wherever the grid of this call has its nodes)
                fres2 = []
                if p == 1:
                    eta2 = [rpts2, eta[1], eta[2]]
                    h2 = getLayoutHandler(comm, {'v_parallel_2d': [0, 2, 1], 'mode_solve': [1, 2, 0]}, [p], eta2)
                    phi2 = Grid(eta2, [None] * 3, h2, 'mode_solve', comm, dtype=np.complex128)
                    for k in range(min(d, 2) + 1):
                        phi2.getAllData()[:] = np.nan
                        ps.solveEquationForFunction(phi2, lambda x, k=k: x ** k)
                        fres2.append(phi2.getAllData().copy())
                    phi.getAllData()[:] = np.nan
                    ps.solveEquationForFunction(phi, lambda x: x ** 0)          # and the first grid again
                    fres2.append(phi.getAllData().copy())
                return sl, res, fres, fres2
            try:
                if p == 1:
                    out = [fn(0)]
                else:
                    out = simmpi.World(p).run(fn)
            except Exception as e:  # noqa
                V('solver-exception:' + type(e).__name__, '%s p=%d: %s: %s' % (tag, p, type(e).__name__, e))
                continue
            nrhs = len(out[0][1])
            got = [np.full((nq, nz, nr), np.nan, dtype=complex) for _ in range(nrhs)]
            gotf = [np.full((nq, nz, nr), np.nan, dtype=complex) for _ in range(len(out[0][2]))]
            for sl, res, fres, _f2 in out:
                for k in range(nrhs):
                    got[k][sl] = res[k]
                for k in range(len(fres)):
                    gotf[k][sl] = fres[k]
            gotf2 = out[0][3]
            rowsR = np.array([Sg.row(x, 0) for x in rpts])
            rowsR2 = np.array([Sg.row(x, 0) for x in rpts2])
            # reference per mode
            solvers = {}
            for Imode, m in enumerate(mv):
                lo = 0 if m in lN else 1
                hi = Sg.nc - (0 if m in uN else 1)
                K = (K0 - m * m * KD)[lo:hi, lo:hi]
                cond = np.linalg.cond(K)
                solvers[Imode] = (lo, hi, K, cond)
            RL = _rhs_list(nq, nz, nr)
            for k in range(nrhs):
                kindv, R = RL[k]
                for Imode in range(nq):
                    lo, hi, K, cond = solvers[Imode]
                    if not cond < 1e11:
                        skipped += 1
                        continue
                    for j in range(nz):
                        u = R[Imode, j, :]
                        evals += 1
                        cr = Sg.coeffs(u.real) + 1j * Sg.coeffs(u.imag)
                        cc = np.zeros(Sg.nc, dtype=complex)
                        cc[lo:hi] = np.linalg.solve(K, (MM @ cr)[lo:hi])
                        want = rowsR @ cc
                        g = got[k][Imode, j, :]
                        tol = 1e-10 * max(1.0, cond * 1e-3) * max(1e-30, np.abs(want).max() + np.abs(u).max() * 1e-3)
                        err = np.abs(g - want).max()
                        if np.abs(want).max() > 0:
                            worst = max(worst, err / tol)
                        if not err <= tol:
                            V('solution-differs-from-galerkin:%s' % kindv, '%s p=%d mode index %d (m=%g) rhs %d: max error %.3g (|want| %.3g, cond %.2g)' % (
                                tag, p, Imode, mv[Imode], k, err, np.abs(want).max(), cond))
                        if lo == 1 and g[0] != 0:
                            V('dirichlet-value-not-zero', '%s mode m=%g: value at the inner boundary is %r' % (tag, mv[Imode], g[0]))
                        if hi == Sg.nc - 1 and g[-1] != 0:
                            V('dirichlet-value-not-zero', '%s mode m=%g: value at the outer boundary is %r' % (tag, mv[Imode], g[-1]))
                        if k < nr * nq and not u.any() and np.abs(g).max() != 0:
                            V('modes-not-independent', '%s: impulse in mode index %d changed mode index %d' % (tag, (k // nr) % nq, Imode))
            # function path: rhs vector = integral of psi_i * rho * r (same quadrature)
            from numpy.polynomial.legendre import leggauss
            pts, wts = leggauss(qdeg // 2 + 1)
            for k in range(len(gotf)):
                rv = np.zeros(Sg.nc)
                for a0, b0 in zip(breaks[:-1], breaks[1:]):
                    for pp, w in zip(pts, wts):
                        x = (a0 + b0) / 2 + pp * (b0 - a0) / 2
                        rv += w * (b0 - a0) / 2 * Sg.row(x, 0) * x * x ** k
                for Imode in range(nq):
                    lo, hi, K, cond = solvers[Imode]
                    if not cond < 1e11:
                        continue
                    evals += 1
                    cc = np.zeros(Sg.nc)
                    cc[lo:hi] = np.linalg.solve(K, rv[lo:hi])
                    want = rowsR @ cc
                    for j in range(nz):
                        g = gotf[k][Imode, j, :]
                        tol = 1e-10 * max(1.0, cond * 1e-3) * max(1e-30, np.abs(want).max())
                        if not np.abs(g - want).max() <= tol:
                            V('function-path-differs-from-galerkin', '%s p=%d mode m=%g rhs r^%d: max error %.3g' % (tag, p, mv[Imode], k, np.abs(g - want).max()))
                        if gotf2:
                            evals += 1
                            want2 = rowsR2 @ cc
                            if not np.abs(gotf2[k][Imode, j, :] - want2).max() <= tol:
                                V('function-path-differs-on-second-grid', '%s mode m=%g rhs r^%d: the same solver on a grid with other radial nodes is off by %.3g' % (tag, mv[Imode], k, np.abs(gotf2[k][Imode, j, :] - want2).max()))
                            if k == 0 and not np.abs(gotf2[-1][Imode, j, :] - want).max() <= tol:
                                V('function-path-differs-on-second-grid', '%s mode m=%g: back on the first grid after a call on another grid, off by %.3g' % (tag, mv[Imode], np.abs(gotf2[-1][Imode, j, :] - want).max()))
    return viols, evals, skipped, worst


def _qnsolver(case):
    import numpy as np
    from pgv import sim, ops, refspline, simmpi
    MPI = sim.setup()
    from pygyro.splines.splines import make_knots, BSplines
    from pygyro.model.layout import getLayoutHandler
    from pygyro.model.grid import Grid
    from pygyro.poisson.poisson_solver import QuasiNeutralitySolver
    from pygyro.initialisation.constants import Constants
    from pygyro.initialisation import initialiser_funcs as init
    viols = {}

    def V(sig, what):
        viols.setdefault(sig, {'sig': sig, 'what': what, 'detail': {}})
    c = ops.generic_constants(Constants())
    d, nc, nq = case['d'], case['nc'], case['nq']
    adiab, chi = case['adiabatic'], case['chi']
    breaks = np.linspace(c.rMin, c.rMax, nc + 1)
    rs = BSplines(make_knots(breaks, d, False), d, False, case['path'] == 'cu')
    Sg = refspline.RefSpace(BSplines(make_knots(breaks, d, False), d, False, False))
    rpts = np.asarray(rs.greville, dtype=float)
    nr, nz = len(rpts), 2
    qdeg = 7
    # profiles of the reference are coded independently of the library (pgv.ops)
    n0 = lambda r: ops.n0_ref(c, r)                      # noqa
    Te = lambda r: ops.te_ref(c, r)                      # noqa
    g = lambda r: ops.dlogn0_ref(c, r)                   # noqa
    Bf = case['B']
    prof = case.get('prof', 'default')
    pkw = {}
    if prof != 'default':
        n0 = lambda r: 1.2 + 0.3 * np.cos(0.2 * r)                                  # noqa
        dn0 = lambda r: -0.06 * np.sin(0.2 * r)                                     # noqa
        Te = lambda r: 0.8 + 0.02 * r                                               # noqa
        g = lambda r: dn0(r) / n0(r)                                                # noqa
        pkw = {'n0': n0, 'Te': Te}
        if prof in ('normalised', 'both'):
            pkw['n0derivNormalised'] = g
        if prof == 'deriv':
            pkw['n0deriv'] = dn0
        if prof == 'both':
            pkw['n0deriv'] = lambda r: 0.0 * r + 5.0       # documented: ignored when n0derivNormalised is given
    M0 = dict(A=lambda r: -1.0, B=lambda r: -(1 / r + g(r)), C=lambda r: 0.0, D=lambda r: -1 / r ** 2, E=lambda r: Bf * Bf / n0(r))
    MC = dict(M0, C=(lambda r: Bf * Bf / Te(r)) if adiab else (lambda r: 0.0))
    K0n, KD, MM = _dense_reference(Sg, breaks, qdeg, M0)
    K0c, _, _ = _dense_reference(Sg, breaks, qdeg, MC)
    mv = np.fft.fftfreq(nq, 1 / nq)
    rowsR = np.array([Sg.row(x, 0) for x in rpts])
    tag = 'QuasiNeutralitySolver degree=%d path=%s ntheta=%d adiabatic=%s chi=%r B=%g profiles=%s' % (d, case['path'], nq, adiab, chi, case['B'], prof)
    evals = 0
    worst = 0.0
    for p in (1, 2, 3):
        eta = [rpts, np.linspace(0, 2 * np.pi, nq, endpoint=False), np.linspace(0, 1, nz)]
        rhs = [R for _, R in _rhs_list(nq, nz, nr)]

        def fn(r):
            comm = MPI.COMM_WORLD
            h = getLayoutHandler(comm, {'v_parallel_2d': [0, 2, 1], 'mode_solve': [1, 2, 0]}, [p], eta)
            phi = Grid(eta, [None] * 3, h, 'mode_solve', comm, dtype=np.complex128)
            rho = Grid(eta, [None] * 3, h, 'mode_solve', comm, dtype=np.complex128)
            kw = {'chi': chi} if adiab else {}
            kw.update(pkw)
            qn = QuasiNeutralitySolver(eta, qdeg, rs, c, adiabaticElectrons=adiab, B=Bf, **kw)
            l = rho.getLayout('mode_solve')
            sl = tuple(slice(int(x), int(y)) for x, y in zip(l.starts, l.ends))
            res = []
            for R in rhs:
                rho.getAllData()[:] = R[sl]
                phi.getAllData()[:] = np.nan
                qn.solveEquation(phi, rho)
                res.append(phi.getAllData().copy())
            return sl, res
        try:
            out = [fn(0)] if p == 1 else simmpi.World(p).run(fn)
        except Exception as e:  # noqa
            V('qnsolver-exception:' + type(e).__name__, '%s p=%d: %s: %s' % (tag, p, type(e).__name__, e))
            continue
        for k, R in enumerate(rhs):
            got = np.full((nq, nz, nr), np.nan, dtype=complex)
            for sl, res in out:
                got[sl] = res[k]
            for Im, m in enumerate(mv):
                lo = 0 if m == 0 else 1
                hi = Sg.nc - 1
                K = ((K0n if (m == 0 and adiab and chi == 1) else K0c) - m * m * KD)[lo:hi, lo:hi]
                cond = np.linalg.cond(K)
                for j in range(nz):
                    u = R[Im, j, :]
                    evals += 1
                    cr = Sg.coeffs(u.real) + 1j * Sg.coeffs(u.imag)
                    cc = np.zeros(Sg.nc, dtype=complex)
                    cc[lo:hi] = np.linalg.solve(K, (MM @ cr)[lo:hi])
                    want = rowsR @ cc
                    tol = 1e-10 * max(1.0, cond * 1e-3) * max(1e-30, np.abs(want).max() + np.abs(u).max() * 1e-3)
                    err = np.abs(got[Im, j, :] - want).max()
                    if np.abs(want).max() > 0:
                        worst = max(worst, err / tol)
                    if not err <= tol:
                        V('qnsolver-differs-from-galerkin', '%s modes over %d rank(s), mode index %d (m=%g) rhs %d: max error %.3g (|want| %.3g)' % (tag, p, Im, m, k, err, np.abs(want).max()))
    return viols, evals, 0, worst


def _illposed():
    import numpy as np
    from pgv import sim
    sim.setup()
    from pygyro.splines.splines import make_knots, BSplines
    from pygyro.poisson.poisson_solver import DiffEqSolver
    viols = {}
    evals = 0
    for d, path in ((1, False), (3, False), (3, True), (5, False)):
        rs = BSplines(make_knots(np.linspace(1.0, 4.0, 5), d, False), d, False, path)
        n = rs.nbasis
        for lN, uN, C, expect in (([0], [0], lambda r: 0.0, True), ([0, 1], [1], lambda r: 0.0, True), ([0], [1], lambda r: 0.0, False),
                                  ([0], [0], lambda r: 1.0, False), ([], [], lambda r: 0.0, False),
                                  ([0], [0], lambda r: 0.0 * r, True), ([1], [1, 0], lambda r: 0.0 * r, True), ([0], [0], lambda r: 1.0 + 0.0 * r, False),
                                  ([0], [0], lambda r: (r - 2.0) ** 2 * 0.1, False)):
            evals += 1
            raised = False
            try:
                DiffEqSolver(2 * d, rs, n, 4, lNeumannIdx=lN, uNeumannIdx=uN, rFactor=C)
            except ValueError:
                raised = True
            except Exception as e:  # noqa
                viols['illposed-other-exception'] = {'sig': 'illposed-other-exception', 'what': '%s: %s' % (type(e).__name__, e), 'detail': {}}
                continue
            if raised != expect:
                sig = 'pure-neumann-not-refused' if expect else 'well-posed-problem-refused'
                viols[sig] = {'sig': sig, 'what': 'degree %d lNeumann=%r uNeumann=%r C%s0: ValueError %s' % (d, lN, uN, '=' if C(1.0) == 0 and C(3.0) == 0 else '!=', 'missing' if expect else 'raised'), 'detail': {}}
    return viols, evals, 0, 0.0


def run_case(case):
    if case['kind'] == 'qnsolver':
        viols, evals, skipped, worst = _qnsolver(case)
    elif case['kind'] == 'solve':
        viols, evals, skipped, worst = _solve_case(case)
    else:
        viols, evals, skipped, worst = _illposed()
    return {'evals': evals, 'nontrivial': evals, 'violations': list(viols.values()), 'stats': {'skipped_ill_conditioned_modes': skipped, 'max_err_over_tol': worst},
            'sample': {'case': {k: v for k, v in case.items() if k != 'cost'}, 'mode_solves': evals}}
