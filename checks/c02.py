"""C02 Block decomposition is an exact balanced partition; accessors agree with it."""
import itertools

PROPERTY = 'C02'
LEVEL = 'exploration'
TIMEOUT_S = 600
RULE = ('(a) Layout objects constructed directly for every extent n, every process count p<=n, every rank coordinate, in '
        'each distributed position, 1-D and 2-D process grids, all dimension orderings for d<=3 and the physics orderings for '
        'd=4: ranges must tile [0,n) in rank order with lengths differing by at most one and every advertised quantity must '
        'agree with the ranges; (b) Grid objects on every rank of simulated worlds (handler- and swapper-backed): every accessor '
        'with every argument is compared with the partition and a non-uniform eta grid, blocks of all ranks must cover the '
        'global index space exactly once, bufferSize must hold every layout; an evaluation is one Layout/Grid-rank; '
        'non-trivial = p>1 and n not divisible by p for some distributed dimension')
ASSUMPTIONS = ['the property does not fix which ranks get the longer blocks: any balanced contiguous arrangement is accepted',
               'sufficiency of bufferSize for transposes is discharged by C01/C03/C04, which allocate exactly bufferSize']

NMAX = {'quick': 64, 'thorough': 256}
N2MAX = {'quick': 9, 'thorough': 14}
PHYS = {'flux_surface': [0, 3, 1, 2], 'v_parallel': [0, 2, 1, 3], 'poloidal': [3, 2, 1, 0]}


def cases(tier, seed):
    out = []
    for n in range(1, NMAX[tier] + 1):
        out.append({'kind': 'direct1', 'n': n, 'cost': n * n})
    m = N2MAX[tier]
    for n1 in range(1, m + 1):
        for n2 in range(1, m + 1):
            out.append({'kind': 'direct2', 'n1': n1, 'n2': n2, 'cost': (n1 * n2) ** 2})
    grids = [[1, 1], [1, 2], [2, 1], [2, 2], [1, 3], [3, 1], [2, 3], [3, 2]] + ([[3, 3], [4, 2], [1, 4], [4, 1], [2, 4]] if tier == 'thorough' else [])
    shapes4 = [[3, 4, 5, 4], [4, 5, 7, 8], [5, 3, 4, 6]] if tier == 'quick' else [[3, 4, 5, 4], [4, 5, 7, 8], [5, 3, 4, 6], [7, 2, 9, 5], [4, 4, 4, 4]]
    for g in grids:
        for s in shapes4:
            if min(s[0], s[3]) >= g[0] and min(s[2], s[3]) >= g[1]:
                out.append({'kind': 'grid4', 'nprocs': g, 'shape': s, 'cost': 200})
        for s in ([[4, 5, 6], [5, 7, 3]] if tier == 'quick' else [[4, 5, 6], [5, 7, 3], [6, 4, 9]]):
            if min(s[0], s[1]) >= g[0] and min(s[2], s[1]) >= g[1]:
                out.append({'kind': 'grid3', 'nprocs': g, 'shape': s, 'cost': 200})
    for p in ([1, 2, 3] if tier == 'quick' else [1, 2, 3, 4, 5]):
        for s in ([4, 5, 6], [5, 5, 5]):
            if min(s) >= p:
                out.append({'kind': 'grid3all', 'nprocs': [p], 'shape': s, 'cost': 100})
    # arrays of exactly bufferSize must suffice for every transpose: lopsided shapes (where a single swap needs more
    # than any layout's own block) executed through C01's machinery
    from checks import c01
    for c in c01.cases(tier, seed):
        if c['fam'] in ('lop2', 'lop-phys'):
            out.append({'kind': 'buffer', 'c01case': c, 'cost': c['cost']})
    # the same clause for LayoutSwapper.bufferSize (groups with transposes of their own, uneven extents), through C03's machinery
    from checks import c03
    for c in c03.cases(tier, seed):
        if c['grouping'] in ('upstream3', 'upstream4') and c['mode'] == 'walk' and c['dtype'] == 'float64' and max(c['p']) >= 2 and c['shape'] in ([5, 6, 7], [13, 3, 4], [4, 5, 7, 6], [3, 4, 13, 3]):
            out.append({'kind': 'buffer-swapper', 'c03case': c, 'cost': c['cost']})
    return out


def _check_layout(lay, nprocs, dims_order, ext, coords, problems):
    """Consistency of one Layout with the ranges it advertises; returns (starts, ends)."""
    import numpy as np
    d = len(dims_order)
    st = [int(x) for x in lay.starts]
    en = [int(x) for x in lay.ends]
    shp = tuple(int(x) for x in lay.shape)
    full = tuple(ext[k] for k in dims_order)
    if tuple(lay.fullShape) != full:
        problems.append('fullShape')
    if shp != tuple(e - s for s, e in zip(st, en)):
        problems.append('shape!=ends-starts')
    if int(lay.size) != int(np.prod(shp)):
        problems.append('size')
    if tuple(lay.dims_order) != tuple(dims_order) or any(lay.inv_dims_order[k] != list(dims_order).index(k) for k in range(d)):
        problems.append('dims_order/inv_dims_order')
    if lay.ndims != d:
        problems.append('ndims')
    mx = []
    for i in range(d):
        p = nprocs[i] if i < len(nprocs) else 1
        n = full[i]
        ms = [int(x) for x in lay.mpi_starts(i)]
        ml = [int(x) for x in lay.mpi_lengths(i)]
        if len(ms) != p or len(ml) != p:
            problems.append('mpi table length')
            mx.append(0)
            continue
        pos = 0
        for r in range(p):
            if ms[r] != pos:
                problems.append('gap-or-overlap')
                break
            pos += ml[r]
        if pos != n:
            problems.append('not-covering')
        if max(ml) - min(ml) > 1:
            problems.append('unbalanced')
        if min(ml) < (1 if n >= p else 0):
            problems.append('empty-block')
        c = coords[i] if i < len(coords) else 0
        if st[i] != ms[c] or en[i] != ms[c] + ml[c]:
            problems.append('starts/ends disagree with mpi tables')
        mx.append(max(ml))
        if i < len(nprocs) and lay.nprocs[i] != nprocs[i]:
            problems.append('nprocs')
        if i < len(coords) and lay.ranks[i] != coords[i]:
            problems.append('ranks')
    if [int(x) for x in lay.max_block_shape] != mx:
        problems.append('max_block_shape')
    if int(lay.max_block_size) != int(np.prod(mx)):
        problems.append('max_block_size')
    return st, en


def _direct(case):
    import numpy as np
    from pygyro.model.layout import Layout
    evals = 0
    nontriv = 0
    seen = {}
    sample = None

    def note(sig, what):
        seen.setdefault(sig, {'sig': sig, 'what': what, 'detail': {}})
    if case['kind'] == 'direct1':
        n = case['n']
        for other in (3,):
            for order, ext in (([0, 1], [n, other]), ([1, 0], [other, n])):
                eta = [np.arange(e, dtype=float) for e in ext]
                for p in range(1, n + 1):
                    for r in range(p):
                        probs = []
                        try:
                            lay = Layout('a', [p], order, eta, [r])
                            _check_layout(lay, [p], order, ext, [r], probs)
                        except Exception as e:  # noqa
                            probs.append('exception:' + type(e).__name__)
                        evals += 1
                        if p > 1 and n % p:
                            nontriv += 1
                        for pr in set(probs):
                            note('layout:' + pr.replace(' ', '-'), 'Layout(n=%d,p=%d,rank=%d,order=%r): %s' % (n, p, r, order, pr))
        sample = {'n': n, 'p': p, 'rank': r, 'starts': [int(x) for x in lay.starts], 'ends': [int(x) for x in lay.ends]}
    else:
        n1, n2 = case['n1'], case['n2']
        orders = [list(o) for o in itertools.permutations(range(3))]
        for order in orders:
            ext = [0, 0, 0]
            ext[order[0]] = n1
            ext[order[1]] = n2
            ext[order[2]] = 2
            eta = [np.arange(e, dtype=float) for e in ext]
            for p1 in range(1, n1 + 1):
                for p2 in range(1, n2 + 1):
                    for r1 in range(p1):
                        for r2 in range(p2):
                            probs = []
                            try:
                                lay = Layout('a', [p1, p2], order, eta, [r1, r2])
                                _check_layout(lay, [p1, p2], order, ext, [r1, r2], probs)
                            except Exception as e:  # noqa
                                probs.append('exception:' + type(e).__name__)
                            evals += 1
                            if (p1 > 1 and n1 % p1) or (p2 > 1 and n2 % p2):
                                nontriv += 1
                            for pr in set(probs):
                                note('layout:' + pr.replace(' ', '-'), 'Layout(n=(%d,%d),p=(%d,%d),rank=(%d,%d),order=%r): %s' % (n1, n2, p1, p2, r1, r2, order, pr))
        sample = {'n': [n1, n2], 'order': order}
    return {'evals': evals, 'nontrivial': nontriv, 'violations': list(seen.values()), 'stats': {}, 'sample': sample}


def _grid_rank_checks(g, names, shape, eta, problems):
    """All accessor checks of one Grid on one rank, in every layout (the grid is moved through them)."""
    import numpy as np
    d = len(shape)
    out = {}
    for name in names:
        if g.currentLayout != name:
            g.setLayout(name)
        lay = g.getLayout(name)
        st = [int(x) for x in lay.starts]
        en = [int(x) for x in lay.ends]
        order = list(lay.dims_order)
        out[name] = (order, st, en)
        if tuple(g.getAllData().shape) != tuple(e - s for s, e in zip(st, en)):
            problems.append('getAllData shape')
        for i in range(d):
            ref = eta[order[i]][st[i]:en[i]]
            try:
                got = list(g.getCoords(i))
                if [k for k, _ in got] != list(range(en[i] - st[i])) or not np.array_equal(np.array([v for _, v in got]), ref):
                    problems.append('getCoords')
            except Exception as e:  # noqa
                problems.append('getCoords:' + type(e).__name__)
            try:
                if not np.array_equal(np.asarray(g.getCoordVals(i)), ref):
                    problems.append('getCoordVals')
            except Exception as e:  # noqa
                problems.append('getCoordVals:' + type(e).__name__)
            try:
                if list(g.getGlobalIdxVals(i)) != list(range(st[i], en[i])):
                    problems.append('getGlobalIdxVals')
            except Exception as e:  # noqa
                problems.append('getGlobalIdxVals:' + type(e).__name__)
            # getEta takes a *global* dimension index
            try:
                pos = order.index(i)
                got = list(g.getEta(i))
                if [k for k, _ in got] != list(range(en[pos] - st[pos])) or not np.array_equal(np.array([v for _, v in got]), eta[i][st[pos]:en[pos]]):
                    problems.append('getEta')
            except Exception as e:  # noqa
                problems.append('getEta:' + type(e).__name__)
        locshape = [e - s for s, e in zip(st, en)]
        for loc in itertools.product(*[range(min(n, 3)) for n in locshape]):
            # also the last local index of every axis
            for loc2 in (loc, tuple(n - 1 - x for n, x in zip(locshape, loc))):
                try:
                    got = list(g.getGlobalIndices(*loc2))
                    ref = [None] * d
                    for i in range(d):
                        ref[order[i]] = loc2[i] + st[i]
                    if [int(x) for x in got] != ref:
                        problems.append('getGlobalIndices')
                except Exception as e:  # noqa
                    problems.append('getGlobalIndices:' + type(e).__name__)
        if lay.size > g._layout_manager.bufferSize:
            problems.append('bufferSize<layout.size')
        if list(g.nGlobalCoords) != list(shape):
            problems.append('nGlobalCoords')
    return out


def _gridcase(case):
    import numpy as np
    from pgv import simmpi
    from pygyro.model.layout import getLayoutHandler, LayoutSwapper
    from pygyro.model.grid import Grid
    MPI = simmpi.install()
    shape = case['shape']
    nprocs = list(case['nprocs'])
    size = int(np.prod(nprocs))
    eta = [100.0 * k + np.arange(n, dtype=float) ** 2 for k, n in enumerate(shape)]
    kind = case['kind']

    def fn(r):
        comm = MPI.COMM_WORLD
        problems = []
        if kind == 'grid4':
            L = dict(PHYS)
            man = getLayoutHandler(comm, L, nprocs, eta)
            start = 'flux_surface'
        elif kind == 'grid3all':
            L = {''.join(map(str, p)): list(p) for p in itertools.permutations(range(3))}
            man = getLayoutHandler(comm, L, nprocs, eta)
            start = '012'
        else:
            lp = {'v_parallel_2d': [0, 2, 1], 'mode_solve': [1, 2, 0]}
            lv = {'v_parallel_1d': [0, 2, 1]}
            lpol = {'poloidal': [2, 1, 0]}
            L = {}
            for grp in (lp, lv, lpol):
                L.update(grp)
            man = LayoutSwapper(comm, [lp, lv, lpol], [nprocs, nprocs[0], nprocs[1]], eta, 'mode_solve')
            start = 'mode_solve'
        g = Grid(eta, [None] * len(shape), man, start, comm, allocateSaveMemory=True)
        g.getAllData()[:] = 0
        blocks = _grid_rank_checks(g, list(L), shape, eta, problems)
        # the Layout objects as handed out by the manager (after it has computed its buffer sizes and routes) must still
        # advertise consistent tables
        for nm in L:
            lo = g.getLayout(nm)
            lp_ = []
            _check_layout(lo, [int(x) for x in lo.nprocs], list(L[nm]), shape, [int(x) for x in lo.ranks], lp_)
            problems.extend('layout-from-manager:' + x for x in sorted(set(lp_)))
        # accessors must follow the layout also when it is reached through save / restore
        names = list(L)
        g.setLayout(names[0])
        g.saveGridValues()
        g.setLayout(names[-1])
        _grid_rank_checks(g, [names[-1]], shape, eta, [])          # the accessors are used in the other layout before the restore
        g.restoreGridValues()
        if g.currentLayout != names[0]:
            problems.append('currentLayout-after-restore')
        else:
            p2 = []
            _grid_rank_checks(g, [names[0]], shape, eta, p2)
            problems.extend(x + '-after-restore' for x in p2)
        return problems, blocks, list(man.mpiCoords) if hasattr(man, 'mpiCoords') else None
    seen = {}
    try:
        res = simmpi.World(size).run(fn)
    except Exception as e:  # noqa
        sig = 'grid-world-exception:' + type(e).__name__
        return {'evals': 1, 'nontrivial': 0, 'violations': [{'sig': sig, 'what': '%s: %s (%r)' % (type(e).__name__, e, case), 'detail': {}}], 'stats': {}, 'sample': None}
    for r, (problems, blocks, coords) in enumerate(res):
        for p in set(problems):
            sig = 'accessor:' + p.replace(' ', '-')
            seen.setdefault(sig, {'sig': sig, 'what': 'Grid accessor check "%s" failed on rank %d (%s shape %r grid %r)' % (p, r, kind, shape, nprocs), 'detail': {}})
    # cross-rank tiling: the blocks of the ranks that differ in the distributed coordinates cover the global space;
    # replicated copies (swapper groups with fewer distributed directions) are allowed to repeat identically
    names = list(res[0][1])
    for name in names:
        cover = np.zeros(shape, dtype=int)
        distinct = set()
        for r, (_, blocks, _) in enumerate(res):
            order, st, en = blocks[name]
            key = (tuple(st), tuple(en))
            if key in distinct:
                continue
            distinct.add(key)
            sl = [None] * len(shape)
            for i, k in enumerate(order):
                sl[k] = slice(st[i], en[i])
            cover[tuple(sl)] += 1
        if not np.all(cover == 1):
            sig = 'blocks-do-not-tile-global-space'
            seen.setdefault(sig, {'sig': sig, 'what': 'layout %s (%s shape %r grid %r): blocks cover cells %d..%d times' % (name, kind, shape, nprocs, cover.min(), cover.max()), 'detail': {}})
    uneven = 1 if any(n > 1 for n in nprocs) else 0
    return {'evals': size * len(names), 'nontrivial': size * len(names) * uneven, 'violations': list(seen.values()),
            'stats': {'grid_worlds': 1}, 'sample': {'rank0_blocks': {k: v for k, v in list(res[0][1].items())[:2]}}}


def run_case(case):
    if case['kind'] == 'buffer':
        from checks import c01
        r = c01.run_case(case['c01case'])
        for v in r['violations']:
            v['sig'] = 'exact-bufferSize-arrays-do-not-suffice:' + v['sig']
        return r
    if case['kind'] == 'buffer-swapper':
        from checks import c03
        r = c03.run_case(case['c03case'])
        for v in r['violations']:
            v['sig'] = 'exact-bufferSize-arrays-do-not-suffice:swapper:' + v['sig']
        return r
    if case['kind'].startswith('direct'):
        return _direct(case)
    return _gridcase(case)
