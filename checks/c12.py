"""C12 Poloidal advection traces 2nd-order ExB characteristics, interpolates at foot."""
import itertools

PROPERTY = 'C12'
LEVEL = 'exploration'
TIMEOUT_S = 900
RULE = ('(n_theta,n_r) in {(8,6),(9,7)} x spline bases (uniform-cubic fast path, general path with non-uniform theta breaks) x potentials {constant, omega*r^2/2, vortex localised in theta, '
        'mode a*r*cos(theta), dense smooth, strongly sheared (non-contractive for the implicit scheme)} x dt in {0, +-0.1, +-1, +-5} x v in {0, +-2} x '
        'boundary mode (fEq / null) x time scheme (explicit Heun / implicit trapezoid); data f = zero (isolates the boundary fill), dense, every unit impulse '
        '(selected configurations); oracle = independent implementation of the stated Heun / clipped fixed-point scheme with exact-rational interpolation '
        'and an independent float de Boor evaluation; the feet arrays the object exposes are compared as well as f; nodes whose first- or second-stage foot '
        'lies within 1e-9*(rMax-rMin) of a radial boundary are skipped (counted); identities: constant potential = identity, omega*r^2/2 = rigid rotation by '
        'omega*dt/B0, explicit vs implicit feet differ by O(dt^3) on interior nodes (ratio >= 6 under halving), implicit iteration terminates (watchdog); '
        'grid-level clause: gridStep / gridStep_SplinesUnchanged sequences (potential replaced in between, phi grid poisoned after the splines were taken) on 6 (quick) / 30 (thorough) process grids against per-plane serial step() with the spline of the global z plane; '
        'an evaluation is one step() call; non-trivial = non-constant potential and dt != 0')
ASSUMPTIONS = ['pgv.refspline', 'explicit scheme tolerance 1e-11 (relative to max|f| and the local gradient); implicit scheme compared within 100*tol of the converged reference',
               'termination is decided by a 20 s alarm per implicit step (a terminating step takes < 1 s)']

EPS_B = 1e-9


def cases(tier, seed):
    out = []
    sizes = [(8, 6), (9, 7)]
    bases = ['cu', 'nu'] if tier == 'quick' else ['cu', 'nu', 'nu24']
    pots = ['const', 'rot', 'fastrot', 'mode', 'dense', 'vortex']
    for (nq, nr), basis, pot, nul, expl in itertools.product(sizes, bases, pots, (False, True), (True, False)):
        if tier == 'quick' and (nq, nr) == (9, 7) and basis == 'nu' and pot in ('const', 'dense', 'vortex'):
            continue
        out.append({'kind': 'step', 'nq': nq, 'nr': nr, 'basis': basis, 'pot': pot, 'nul': nul, 'explicit': expl, 'tier': tier, 'cost': 50 if expl else 200})
    # a potential that depends on theta only (purely radial drift), both schemes and boundary modes
    for basis, nul, expl in itertools.product(('cu', 'nu'), (False, True), (True, False)):
        out.append({'kind': 'step', 'nq': 8, 'nr': 6, 'basis': basis, 'pot': 'thetaonly', 'nul': nul, 'explicit': expl, 'tier': tier, 'cost': 50 if expl else 200})
    if tier == 'quick':
        # theta and r splines of different degree and knots (2 and 4): arguments of the two directions must not be interchangeable
        for nul, expl in itertools.product((False, True), (True, False)):
            out.append({'kind': 'step', 'nq': 8, 'nr': 6, 'basis': 'nu24', 'pot': 'dense', 'nul': nul, 'explicit': expl, 'tier': tier, 'cost': 50 if expl else 200})
    for basis in ('cu', 'nu'):
        out.append({'kind': 'order', 'nq': 8, 'nr': 6, 'basis': basis, 'cost': 100})
        for amp, dt in ((0.01, 0.7), (0.03, 0.7), (0.1, 0.7), (0.1, 2.0), (0.3, 0.7)):
            out.append({'kind': 'terminate', 'nq': 8, 'nr': 6, 'basis': basis, 'amp': amp, 'dt': dt, 'cost': 100, 'timeout': 120})
    # grid-level clause: every (v, z) plane is advected with the spline of the potential on the SAME global z plane, also when the
    # splines are reused (gridStep_SplinesUnchanged) and after the potential has changed
    grids = [[1, 1], [2, 1], [1, 2], [2, 2], [1, 3], [3, 2]] if tier == 'quick' else [[a, b] for a in range(1, 6) for b in range(1, 8) if a * b <= 12]
    for g in grids:
        for expl in (True, False):
            out.append({'kind': 'grid', 'npts': [6, 8, 7, 5], 'grid': g, 'explicit': expl, 'cost': 150 * g[0] * g[1]})
    return out


def _grid_case(case):
    import numpy as np
    from pgv import sim
    from checks import c05
    MPI = sim.setup()
    from pygyro.initialisation.setups import setupCylindricalGrid
    from pygyro.model.layout import LayoutSwapper
    from pygyro.model.grid import Grid
    from pygyro.advection.advection import PoloidalAdvection
    from pygyro.splines.splines import Spline2D
    from pygyro.splines.spline_interpolators import SplineInterpolator2D
    npts = case['npts']
    nprocs = case['grid']
    PHI = [0.2 * c05._phi_global(npts), 0.2 * c05._phi_global(npts)[:, ::-1, ::-1] * 0.7 + 0.01]

    def close(a, b):
        return a.shape == b.shape and sim.maxrel(a, b) <= 1e-13

    def fn(r):
        comm = MPI.COMM_WORLD
        viol = []
        f, c, t = setupCylindricalGrid(layout='poloidal', npts=list(npts), comm=comm, iotaVal=0.8, eps=0.1, m=3, n=-2, vMin=-6.1, **c05.GEN)
        eta = f.eta_grid
        lpo = f.getLayout('poloidal')
        gi = sim.global_index_arrays(lpo)
        f.getAllData()[:] *= 1 + 0.3 * np.sin(1.0 + gi[0] * 1.3 + gi[1] * 0.7 + gi[2] * 2.1 + gi[3] * 0.9)
        spl = [f.getSpline(k) for k in range(4)]
        lp = {'v_parallel_2d': [0, 2, 1], 'mode_solve': [1, 2, 0]}
        rphi = LayoutSwapper(comm, [lp, {'v_parallel_1d': [0, 2, 1]}, {'poloidal': [2, 1, 0]}], [nprocs, nprocs[0], nprocs[1]], eta[:3], 'poloidal')
        phi = Grid(eta[:3], f.getSpline(slice(0, 3)), rphi, 'poloidal', comm, dtype=np.complex128)
        l3 = phi.getLayout('poloidal')
        polAdv = PoloidalAdvection(eta, [spl[1], spl[0]], c, explicitTrap=case['explicit'], tol=1e-12)
        polS = PoloidalAdvection(eta, [spl[1], spl[0]], c, explicitTrap=case['explicit'], tol=1e-12)
        itp2 = SplineInterpolator2D(spl[1], spl[0])
        n = 0
        # (operation, potential in force, dt)
        for op, k, dt in (('gridStep', 0, 0.7), ('gridStep_SplinesUnchanged', 0, -0.3), ('gridStep', 1, 0.4), ('gridStep_SplinesUnchanged', 1, 0.5),
                          ('gridStep_SplinesUnchanged', 1, -0.2)):
            before = f.getAllData().copy()
            if op == 'gridStep':
                phi.getAllData()[:] = np.transpose(PHI[k], l3.dims_order)[tuple(slice(int(a), int(b)) for a, b in zip(l3.starts, l3.ends))]
                polAdv.gridStep(f, phi, dt)
                phi.getAllData()[:] = np.nan          # the splines were taken; the grid may change afterwards
            else:
                polAdv.gridStep_SplinesUnchanged(f, dt)
            ok = True
            for j in range(before.shape[1]):
                J = int(lpo.starts[1]) + j
                sp = Spline2D(spl[1], spl[0])
                itp2.compute_interpolant(np.ascontiguousarray(PHI[k][:, :, J].T), sp)   # (theta, r)
                for i in range(before.shape[0]):
                    v = eta[3][int(lpo.starts[0]) + i]
                    e = before[i, j].copy()
                    polS.step(e, dt, sp, v)
                    ok = ok and close(f.getAllData()[i, j], e)
                    n += 1
            if not ok:
                viol.append('grid-level:%s:plane-not-advected-with-potential-of-its-global-z' % op)
        return n, viol
    res, _w = sim.run_world(nprocs, fn)
    viols = {}
    evals = 0
    for rk, (n, vl) in enumerate(res):
        evals += n
        for v in vl:
            viols.setdefault(v, {'sig': v, 'what': '%s on rank %d (npts %r process grid %r %s scheme)' % (
                v, rk, npts, nprocs, 'explicit' if case['explicit'] else 'implicit'), 'detail': {}})
    return viols, evals, evals if nprocs[0] * nprocs[1] > 1 else 0, 0, 0.0


def _setup(case):
    import math
    import numpy as np
    from pgv import sim, ops, refspline
    sim.setup()
    from pygyro.initialisation.constants import Constants
    c = ops.generic_constants(Constants())
    nq, nr = case['nq'], case['nr']
    tp = 2 * math.pi
    if case['basis'] == 'cu':
        bq = ops.mkspace(nq, 0.0, tp, 3, True, True)
        br = ops.mkspace(nr, c.rMin, c.rMax, 3, False, True)
    elif case['basis'] == 'nu':
        bq = ops.mkspace(nq, 0.0, tp, 3, True, False, [1, 1.6, 0.8])
        br = ops.mkspace(nr, c.rMin, c.rMax, 3, False, False, [1, 1.3])
    else:
        bq = ops.mkspace(nq, 0.0, tp, 2, True, False, [1, 1.5])
        br = ops.mkspace(nr, c.rMin, c.rMax, 4, False, False)
    Sq, Sr = refspline.RefSpace(bq), refspline.RefSpace(br)
    q = np.asarray(bq.greville, dtype=float)
    r = np.asarray(br.greville, dtype=float)
    eta = [r, q, np.linspace(0, 1, 4), np.linspace(-1, 1, 4)]
    return c, bq, br, Sq, Sr, q, r, eta


def _potential(name, Q, R, c, amp=None):
    import numpy as np
    rmin = c.rMin
    if name == 'const':
        return np.full(Q.shape, 0.37)
    if name == 'rot':
        return 0.06 * R ** 2 / 2
    if name == 'fastrot':
        return 3.0 * R ** 2 / 2          # omega*dt/B0 of several turns: theta feet far outside [0, 2 pi) on both sides
    if name == 'mode':
        return 0.5 * R * np.cos(Q) * np.sin(0.2 * R)
    if name == 'dense':
        return 0.01 * np.sin(2 * Q + 0.3) * (R - rmin) * np.exp(-0.1 * R) + 0.02 * R ** 2 + 0.05 * R * np.sin(Q) * np.cos(0.3 * R)
    if name == 'vortex':
        # drift concentrated around theta = pi: almost no motion on the last theta rows, so a convergence test that
        # looks at part of the grid only stops the implicit iteration too early
        return 0.25 * np.exp(-((Q - np.pi) ** 2) / 0.4) * (R - rmin) * (c.rMax - R) / 10.0
    if name == 'thetaonly':
        # depends on theta only: the drift is purely radial (inward on one half of the plane, outward on the other)
        return 0.6 * np.cos(Q) + 0.25 * np.sin(2 * Q + 0.4)
    if name == 'shear':
        return amp * np.cos(2 * Q) * (R - rmin)
    raise KeyError(name)


class _Ref:
    """independent scheme: characteristic feet and the boundary fill"""

    def __init__(self, c, Sq, Sr, q, r, Cphi):
        self.c, self.Sq, self.Sr, self.q, self.r, self.C = c, Sq, Sr, q, r, Cphi
        self.tp = 2 * __import__('math').pi

    def vel(self, x, y):
        from pgv.refspline import row_float
        a0, a1 = row_float(self.Sq, x, 0), row_float(self.Sq, x, 1)
        b0, b1 = row_float(self.Sr, y, 0), row_float(self.Sr, y, 1)
        return (a0 @ self.C @ b1) / y, (a1 @ self.C @ b0) / y

    def feet_explicit(self, dt):
        import numpy as np
        m = dt / self.c.B0
        nq, nr = len(self.q), len(self.r)
        rmin, rmax = self.r[0], self.r[-1]
        k1 = np.zeros((2, nq, nr))
        k2 = np.zeros((2, nq, nr))
        for i in range(nq):
            for j in range(nr):
                dr0, dq0 = self.vel(self.q[i], self.r[j])
                a = (self.q[i] - dr0 * m) % self.tp
                b = self.r[j] + dq0 * m
                k1[:, i, j] = a, b
                if not (b < rmin or b > rmax):
                    drk, dqk = self.vel(a, b)
                else:
                    drk = dqk = 0.0
                k2[:, i, j] = (self.q[i] - (dr0 + drk) * m * 0.5) % self.tp, self.r[j] + (dq0 + dqk) * m * 0.5
        return k1, k2

    def feet_implicit(self, dt, iters=400):
        import numpy as np
        m = dt / self.c.B0
        nq, nr = len(self.q), len(self.r)
        rmin, rmax = self.r[0], self.r[-1]
        k2 = np.zeros((2, nq, nr))
        conv = np.zeros((nq, nr), dtype=bool)
        touched = np.zeros((nq, nr), dtype=bool)
        for i in range(nq):
            for j in range(nr):
                dr0, dq0 = self.vel(self.q[i], self.r[j])
                kq = self.q[i] - dr0 * m
                kr = self.r[j] + dq0 * m
                for it in range(iters):
                    kq %= self.tp
                    if abs(kr - rmin) < EPS_B * (rmax - rmin) or abs(kr - rmax) < EPS_B * (rmax - rmin):
                        touched[i, j] = True
                    if rmin <= kr <= rmax:
                        drk, dqk = self.vel(kq, kr)
                    else:
                        drk = dqk = 0.0
                    nq_ = (self.q[i] - (dr0 + drk) * m / 2) % self.tp
                    nr_ = min(max(self.r[j] + (dq0 + dqk) * m / 2, rmin), rmax)
                    dd = abs(nq_ - kq)
                    dd = min(dd, self.tp - dd)
                    dd = max(dd, abs(nr_ - kr))
                    kq, kr = nq_, nr_
                    if dd < 1e-14:
                        conv[i, j] = True
                        break
                k2[:, i, j] = kq, kr
        return k2, conv, touched


def _angdiff(a, b, tp):
    import numpy as np
    d = np.abs(a - b) % tp
    return np.minimum(d, tp - d)


def _run_step(case):
    import math
    import signal
    import numpy as np
    from pgv import ops, refspline
    c, bq, br, Sq, Sr, q, r, eta = _setup(case)
    from pygyro.splines.splines import Spline2D
    from pygyro.splines.spline_interpolators import SplineInterpolator2D
    from pygyro.advection.advection import PoloidalAdvection
    viols = {}

    def V(sig, what):
        viols.setdefault(sig, {'sig': sig, 'what': what, 'detail': {}})
    tp = 2 * math.pi
    nq, nr = len(q), len(r)
    Q, R = np.meshgrid(q, r, indexing='ij')
    phi = _potential(case['pot'], Q, R, c)
    Cphi = refspline.coeffs2d(Sq, Sr, phi)
    phis = Spline2D(bq, br)
    SplineInterpolator2D(bq, br).compute_interpolant(phi, phis)
    ref = _Ref(c, Sq, Sr, q, r, Cphi)
    rmin, rmax = r[0], r[-1]
    width = rmax - rmin
    tol_impl = 1e-10
    adv = PoloidalAdvection(eta, [bq, br], c, nulEdge=case['nul'], explicitTrap=case['explicit'], tol=tol_impl)
    scheme = 'explicit' if case['explicit'] else 'implicit'
    tag = 'ntheta=%d nr=%d basis=%s potential=%s nulEdge=%s scheme=%s' % (nq, nr, case['basis'], case['pot'], case['nul'], scheme)
    dense = np.cos(Q) * R + 0.2 * np.sin(3 * Q + 1) * (R - rmin) + 1.0
    evals = nontriv = skipped = 0
    worst = 0.0
    dts = (0.0, 0.1, -0.1, 1.0, -1.0, 5.0, -5.0)
    if not case['explicit'] and case['pot'] in ('mode', 'dense', 'vortex'):
        # keep the fixed-point map contractive (dt*Lip(v) < 2); the non-contractive regime is the subject of kind=terminate
        dts = (0.0, 0.1, -0.1, 0.4, -0.4)
    for dt in dts:
        if case['explicit']:
            k1, k2 = ref.feet_explicit(dt)
            near = (np.abs(k1[1] - rmin) < EPS_B * width) | (np.abs(k1[1] - rmax) < EPS_B * width) | \
                   (np.abs(k2[1] - rmin) < EPS_B * width) | (np.abs(k2[1] - rmax) < EPS_B * width)
            ftol = 1e-11 * (1 + abs(dt))
        else:
            k2, conv, touched = ref.feet_implicit(dt)
            near = touched | ~conv | (np.abs(k2[1] - rmin) < EPS_B * width) | (np.abs(k2[1] - rmax) < EPS_B * width)
            ftol = 100 * tol_impl
        ok = ~near
        skipped += int(near.sum())
        for v in (0.0, 2.0, -2.0):
            datas = [('zero', np.zeros((nq, nr))), ('dense', dense)] + ([('tiny', 1e-20 * dense)] if v == 2.0 else [])      # the step is affine in f
            if dt in (1.0,) and v == 0.0 and case['tier'] == 'thorough':
                for a, b in itertools.product(range(nq), range(nr)):
                    e = np.zeros((nq, nr))
                    e[a, b] = 1.0
                    datas.append(('impulse(%d,%d)' % (a, b), e))
            for name, f in datas:
                g = f.copy()
                evals += 1
                if case['pot'] != 'const' and dt != 0:
                    nontriv += 1
                signal.signal(signal.SIGALRM, _alarm)
                signal.alarm(20)
                try:
                    adv.step(g, dt, phis, v)
                except _Timeout:
                    V('implicit-iteration-does-not-terminate', '%s dt=%g: step() still iterating after 20 s' % (tag, dt))
                    signal.alarm(0)
                    return viols, evals, nontriv, skipped, worst
                except Exception as e:  # noqa
                    V('step-exception:' + type(e).__name__, '%s dt=%g v=%g data=%s: %s: %s' % (tag, dt, v, name, type(e).__name__, e))
                    signal.alarm(0)
                    continue
                finally:
                    signal.alarm(0)
                # feet the object exposes
                eq = _angdiff(adv._endPts_k2_q, k2[0], tp)
                er = np.abs(adv._endPts_k2_r - k2[1])
                # where the object clipped/discarded, only nodes inside count
                fe = max(eq[ok].max() if ok.any() else 0.0, er[ok].max() if ok.any() else 0.0)
                if not fe <= ftol:
                    V('feet-differ:' + scheme, '%s dt=%g: feet differ from the reference scheme by %.3g (tol %.3g)' % (tag, dt, fe, ftol))
                # values
                Cf = refspline.coeffs2d(Sq, Sr, f)
                want = np.zeros((nq, nr))
                scale = np.zeros((nq, nr))
                for i in range(nq):
                    for j in range(nr):
                        a, b = k2[0, i, j], k2[1, i, j]
                        if b < rmin:
                            want[i, j] = 0.0 if case['nul'] else ops.feq(c, rmin, v)
                        elif b > rmax:
                            want[i, j] = 0.0 if case['nul'] else ops.feq(c, b, v)
                        else:
                            ra0 = refspline.row_float(Sq, a % tp, 0)
                            rb0 = refspline.row_float(Sr, b, 0)
                            want[i, j] = ra0 @ Cf @ rb0
                            scale[i, j] = abs(refspline.row_float(Sq, a % tp, 1) @ Cf @ rb0) + abs(ra0 @ Cf @ refspline.row_float(Sr, b, 1))
                vt = 1e-11 * max(1e-300, np.abs(f).max(), np.abs(want).max()) * Sq.cond_inf() * Sr.cond_inf() + (ftol * scale if not case['explicit'] else 1e-11 * scale)
                err = np.abs(g - want)
                bad = ok & ~(err <= vt)          # NaN counts as wrong
                if ok.any():
                    worst = max(worst, float((err[ok] / np.maximum(vt, 1e-300)[ok]).max()) if np.ndim(vt) else float(err[ok].max() / vt))
                if bad.any():
                    i, j = np.argwhere(bad)[0]
                    kindv = 'outside' if (k2[1, i, j] < rmin or k2[1, i, j] > rmax) else 'inside'
                    V('value-differs:%s:%s-foot' % (scheme, kindv), '%s dt=%g v=%g data=%s node (%d,%d) foot r=%.6g: got %.12g want %.12g' % (
                        tag, dt, v, name, i, j, k2[1, i, j], g[i, j], want[i, j]))
                if case['pot'] == 'const' and name == 'dense' and ok.any() and not np.abs(g - f)[ok].max() <= 1e-11 * np.abs(f).max() * Sq.cond_inf() * Sr.cond_inf():
                    V('constant-potential-not-identity', '%s dt=%g: f changed by %.3g under a constant potential' % (tag, dt, np.abs(g - f)[ok].max()))
                if case['pot'] in ('rot', 'fastrot') and name == 'dense' and ok.any():
                    omega = 0.06 if case['pot'] == 'rot' else 3.0
                    rot = _angdiff(adv._endPts_k2_q, (Q - omega * dt / c.B0) % tp, tp)
                    if not max(rot[ok].max(), np.abs(adv._endPts_k2_r - R)[ok].max()) <= max(ftol, 1e-11):
                        V('rigid-rotation-violated:' + scheme, '%s dt=%g: feet are not the rigid rotation by omega*dt/B0 (error %.3g)' % (tag, dt, rot[ok].max()))
    return viols, evals, nontriv, skipped, worst


class _Timeout(Exception):
    pass


def _alarm(signum, frame):
    raise _Timeout()


def _order(case):
    import math
    import signal
    import numpy as np
    from pgv import refspline
    c, bq, br, Sq, Sr, q, r, eta = _setup(case)
    from pygyro.splines.splines import Spline2D
    from pygyro.splines.spline_interpolators import SplineInterpolator2D
    from pygyro.advection.advection import PoloidalAdvection
    viols = {}
    tp = 2 * math.pi
    Q, R = np.meshgrid(q, r, indexing='ij')
    evals = 0
    for pot in ('mode', 'dense'):
        phi = _potential(pot, Q, R, c)
        phis = Spline2D(bq, br)
        SplineInterpolator2D(bq, br).compute_interpolant(phi, phis)
        diffs = []
        inner = None
        for dt in (0.4, 0.2, 0.1):
            ex = PoloidalAdvection(eta, [bq, br], c, nulEdge=True, explicitTrap=True)
            im = PoloidalAdvection(eta, [bq, br], c, nulEdge=True, explicitTrap=False, tol=1e-11)
            f1 = np.cos(Q) * R
            ex.step(f1.copy(), dt, phis, 0.0)
            signal.signal(signal.SIGALRM, _alarm)
            signal.alarm(60)
            try:
                im.step(f1.copy(), dt, phis, 0.0)
            except _Timeout:
                viols['implicit-iteration-does-not-terminate'] = {'sig': 'implicit-iteration-does-not-terminate', 'what': 'order test basis %s potential %s dt=%g: still iterating after 60 s' % (case['basis'], pot, dt), 'detail': {}}
                return viols, evals, evals, 0, 0.0
            finally:
                signal.alarm(0)
            evals += 2
            rmin, rmax = r[0], r[-1]
            ins = np.ones(Q.shape, dtype=bool)
            for arr in (ex._endPts_k1_r, ex._endPts_k2_r, im._endPts_k2_r):
                ins &= (arr > rmin + 1e-9 * (rmax - rmin)) & (arr < rmax - 1e-9 * (rmax - rmin))
            ins[:, 0] = False
            ins[:, -1] = False
            inner = ins if inner is None else (inner & ins)
            d = np.maximum(_angdiff(ex._endPts_k2_q, im._endPts_k2_q, tp), np.abs(ex._endPts_k2_r - im._endPts_k2_r))
            diffs.append(d)
        if inner.any():
            e = [float(d[inner].max()) for d in diffs]
            if not (e[1] <= 1e-12 or e[2] <= 1e-12) and not (e[0] / e[1] >= 6 and e[1] / e[2] >= 6):          # NaN counts as wrong
                sig = 'explicit-implicit-not-third-order'
                viols[sig] = {'sig': sig, 'what': 'basis %s potential %s: |feet_expl-feet_impl| at dt=0.4,0.2,0.1 = %r (ratios %.2f, %.2f < 6)' % (
                    case['basis'], pot, e, e[0] / e[1], e[1] / e[2]), 'detail': {}}
    return viols, evals, evals, 0, 0.0


def _terminate(case):
    import signal
    import numpy as np
    c, bq, br, Sq, Sr, q, r, eta = _setup(case)
    from pygyro.splines.splines import Spline2D
    from pygyro.splines.spline_interpolators import SplineInterpolator2D
    from pygyro.advection.advection import PoloidalAdvection
    viols = {}
    Q, R = np.meshgrid(q, r, indexing='ij')
    phi = _potential('shear', Q, R, c, case['amp'])
    phis = Spline2D(bq, br)
    SplineInterpolator2D(bq, br).compute_interpolant(phi, phis)
    im = PoloidalAdvection(eta, [bq, br], c, nulEdge=True, explicitTrap=False, tol=1e-10)
    f = np.cos(Q) * R
    signal.signal(signal.SIGALRM, _alarm)
    signal.alarm(45)
    try:
        im.step(f, case['dt'], phis, 0.0)
    except _Timeout:
        sig = 'implicit-iteration-does-not-terminate:shear-amp%g-dt%g' % (case['amp'], case['dt'])
        viols[sig] = {'sig': sig, 'what': 'PoloidalAdvection(explicitTrap=False).step with phi = %g*cos(2 theta)*(r-rMin), dt=%g on the 8x6 grid (basis %s): the fixed-point loop `while (norm > tol)` was still running after 45 s (it has no iteration cap)' % (
            case['amp'], case['dt'], case['basis']), 'detail': {}}
    finally:
        signal.alarm(0)
    return viols, 1, 1, 0, 0.0


def run_case(case):
    if case['kind'] == 'step':
        viols, evals, nontriv, skipped, worst = _run_step(case)
    elif case['kind'] == 'order':
        viols, evals, nontriv, skipped, worst = _order(case)
    elif case['kind'] == 'grid':
        viols, evals, nontriv, skipped, worst = _grid_case(case)
    else:
        viols, evals, nontriv, skipped, worst = _terminate(case)
    return {'evals': evals, 'nontrivial': nontriv, 'violations': list(viols.values()),
            'stats': {'skipped_nodes_near_boundary': skipped, 'max_err_over_tol': worst},
            'sample': {'case': {k: v for k, v in case.items() if k != 'cost'}, 'steps': evals, 'skipped_nodes': skipped}}
