"""C07 Spline evaluation equals the mathematical B-spline on every entry point."""
import itertools

PROPERTY = 'C07'
LEVEL = 'exploration'
TIMEOUT_S = 1200
RULE = ('structural lattice: degree x cell count x clamped/periodic x breakpoint-width pattern x uniform flag (fast path) x scale; '
        'x alphabet = every breakpoint, +-1 ulp, cell 1/3 and 1/2 points, end points (thorough: + d+1 interior points per cell); data = '
        'all unit coefficient vectors, all-ones, one dense integer vector; entry points Spline1D.eval (scalar, array), eval_vector, '
        'BSplines[i], Spline2D.eval (scalar, tensor), eval_vector, *_eval_spline_2d_vector, der in {0,1}, (der1,der2) in {0,1}^2; '
        'oracle = exact-rational Cox-de Boor (pgv.refspline) on the knot vector the path really uses; an evaluation is one '
        '(space, entry point, der, coefficient vector) compared at all x; non-trivial = non-uniform breakpoints, or fast path, or periodic')
ASSUMPTIONS = ['kernels are linear in the coefficients for fixed structural arguments (checked: superposition on unit-vector pairs in thorough)',
               'for the derivative of a degree-1 spline exactly at a knot either one-sided value is accepted',
               'tolerance 64*eps*(d+1)*sum|c|*scale, scale = 1 (values) or d/min knot span (derivatives)']

EPS = 2.220446049250313e-16


def cases(tier, seed):
    from pgv import splat
    out = []
    descs = splat.space_descs(tier)
    if tier == 'thorough':
        descs = descs + [d for d in splat.space_descs(tier, max_degree=10, patterns=False) if d['degree'] > 5]
    else:
        descs = descs + [d for d in splat.space_descs(tier, max_degree=8, patterns=False) if d['degree'] > 5 and len(d['widths']) <= d['degree'] + 1]
    chunk = 6
    for i in range(0, len(descs), chunk):
        out.append({'kind': '1d', 'descs': descs[i:i + chunk], 'tier': tier, 'cost': sum(len(d['widths']) * d['degree'] for d in descs[i:i + chunk])})
    # 2-D pairs
    def D(d, per, w, flag=False, scale=1.0, off=0.0):
        return {'degree': d, 'periodic': per, 'widths': list(w), 'flag': flag, 'scale': scale, 'offset': off}
    cu = [D(3, True, [1, 1, 1, 1], True), D(3, False, [1, 1, 1], True, 2.0, -1.0), D(3, False, [1, 1, 1, 1, 1], True, 0.5, 0.25), D(3, True, [1, 1, 1], True, 0.1, 0.3),
          D(3, False, [1], True), D(3, False, [1, 1], True, 3.0)]
    nu = [D(1, False, [1, 2]), D(1, True, [2, 1, 1]), D(2, False, [1, 3, 1, 2]), D(2, True, [1, 2, 1]), D(3, True, [2, 1, 2, 1]), D(3, False, [1, 1, 1, 1]),
          D(3, False, [1, 2, 3]), D(3, False, [3, 1, 2]), D(2, True, [2, 1, 3]), D(3, True, [1, 1, 1, 1], False, 0.1, 0.3)]
    if tier == 'thorough':
        nu += [D(4, True, [1, 1, 2, 1, 1]), D(4, False, [2, 1]), D(5, False, [1, 2, 1]), D(5, True, [1, 1, 1, 2, 1, 1]), D(2, False, [1]), D(1, False, [1])]
    for fam in (cu, nu):
        for a, b in itertools.product(fam, repeat=2):
            out.append({'kind': '2d', 'a': a, 'b': b, 'tier': tier, 'cost': 60 * len(a['widths']) * len(b['widths'])})
    return out


def _tol(S, c, der):
    import numpy as np
    scale = 1.0
    if der:
        spans = [float(S.T[i + 1] - S.T[i]) for i in range(len(S.T) - 1) if S.T[i + 1] > S.T[i]]
        scale = S.d / min(spans)
    return 64 * EPS * (S.d + 1) * max(1e-300, float(np.sum(np.abs(c)))) * scale          # relative to the coefficients


def _check_1d(desc, tier, V, st):
    import numpy as np
    from pgv import splat, refspline
    from pygyro.splines.splines import Spline1D
    key = splat.space_key(desc)
    try:
        bs = splat.make_space(desc)
    except Exception as e:  # noqa
        V('construct:' + type(e).__name__, 'BSplines(%s) raised %s: %s' % (key, type(e).__name__, e))
        return
    S = refspline.RefSpace(bs)
    X = splat.x_alphabet(splat.breaks_of(desc), tier, S.d)
    interior = set(float(x) for x in S.br[1:-1])
    nontriv = (len(set(desc['widths'])) > 1) or S.cu or S.per
    ref = {}
    for der in (0, 1):
        R = np.array([S.row(x, der) for x in X])
        RL = None
        # the derivative of a degree-1 spline jumps at the interior breakpoints: the value there is the right-hand slope, as for
        # the oracle the property names (scipy.interpolate.BSpline is right-continuous); accepting either side would let a span
        # search that is inconsistent at breakpoints pass
        ref[der] = (R, RL)
    nc = S.nc
    rev = np.arange(len(X))[::-1]
    scr = np.array(sorted(range(len(X)), key=lambda i: (i * 7919 + 13) % (len(X) + 1 if (len(X) + 1) % 7919 else len(X) + 2)))
    vecs = [('e%d' % j, np.eye(nc)[j]) for j in range(nc)]
    vecs.append(('ones', np.ones(nc)))
    vecs.append(('dense', np.array([((7 * j * j + 3 * j) % 11) - 5.0 for j in range(nc)])))
    vecs.append(('tiny', 1e-20 * np.array([((7 * j * j + 3 * j) % 11) - 5.0 for j in range(nc)])))      # evaluation is linear in the coefficients

    def agree(got, c, der):
        R, RL = ref[der]
        t = _tol(S, c, der)
        want = R @ c
        bad = ~(np.abs(got - want) <= t)          # NaN counts as wrong
        if RL is not None:
            bad &= ~(np.abs(got - RL @ c) <= t)
        return not bad.any(), (float(np.abs(got - want).max()), float(X[int(np.argmax(np.abs(got - want)))]))
    for name, c in vecs:
        spl = Spline1D(bs)
        spl.coeffs[:] = c
        for der in (0, 1):
            st['evals'] += 3
            if nontriv:
                st['nontrivial'] += 3
            try:
                got = np.asarray(spl.eval(X, der), dtype=float)
                ok, info = agree(got, c, der)
                if not ok:
                    V('1d-eval-array:der%d' % der, '%s coeffs=%s: Spline1D.eval(array,der=%d) off by %.3g at x=%r' % (key, name, der, info[0], info[1]))
                y = np.full(len(X), np.nan)
                spl.eval_vector(X, y, der)
                ok, info = agree(y, c, der)
                if not ok:
                    V('1d-eval_vector:der%d' % der, '%s coeffs=%s: Spline1D.eval_vector(der=%d) off by %.3g at x=%r' % (key, name, der, info[0], info[1]))
                if name in ('dense', 'ones'):
                    # the caller's output (and input) may be a strided window of a larger array: column of a table, every
                    # second entry, reversed view
                    big = np.full((len(X), 3), np.nan)
                    spl.eval_vector(X, big[:, 1], der)
                    xin = np.repeat(X, 2)[::2]
                    rv = np.full(len(X), np.nan)
                    spl.eval_vector(xin, rv[::-1], der)
                    st['evals'] += 2
                    ok1, i1 = agree(big[:, 1].copy(), c, der)
                    ok2, i2 = agree(rv[::-1].copy(), c, der)
                    if not (ok1 and ok2) or not (np.isnan(big[:, 0]).all() and np.isnan(big[:, 2]).all()):
                        V('1d-eval_vector-strided-output:der%d' % der, '%s coeffs=%s: Spline1D.eval_vector into a strided view off by %.3g (or wrote outside the view)' % (
                            key, name, max(i1[0], i2[0]) if np.isfinite(max(i1[0], i2[0])) else float('nan')))
                # the order of the points in an array must not matter: decreasing and scrambled arrays
                for oname, o in (('decreasing', rev), ('scrambled', scr)):
                    yo = np.full(len(X), np.nan)
                    spl.eval_vector(np.ascontiguousarray(X[o]), yo, der)
                    back = np.empty(len(X))
                    back[o] = yo
                    ok, info = agree(back, c, der)
                    ga = np.empty(len(X))
                    ga[o] = np.asarray(spl.eval(np.ascontiguousarray(X[o]), der), dtype=float)
                    ok2, info2 = agree(ga, c, der)
                    st['evals'] += 2
                    if not (ok and ok2):
                        V('1d-array-order-dependent:der%d' % der, '%s coeffs=%s: array entry points give wrong values for a %s array of points (off by %.3g)' % (
                            key, name, oname, max(info[0], info2[0])))
                if name == 'dense':
                    # equivalent ways of handing over the same points: list, tuple, default der, integer-valued points as an
                    # integer array / Python ints (every breakpoint of the unit-scale spaces is an integer)
                    styles = [('list', list(map(float, X))), ('tuple', tuple(map(float, X)))]
                    ints = [int(x) for x in X if float(x) == int(x)]
                    if len(ints) >= 2:
                        styles += [('int-array', np.array(ints)), ('int-list', ints)]
                    for sname, arg in styles:
                        st['evals'] += 1
                        g2 = np.asarray(spl.eval(arg, der), dtype=float) if (der or sname.startswith('int')) else np.asarray(spl.eval(arg), dtype=float)
                        ref_rows = ref[der][0]
                        idx = [int(np.where(X == float(a))[0][0]) for a in np.asarray(arg, dtype=float)]
                        want2 = (ref_rows @ c)[idx]
                        alt = ref[der][1]
                        bad2 = ~(np.abs(g2 - want2) <= _tol(S, c, der))
                        if alt is not None:
                            bad2 &= ~(np.abs(g2 - (alt @ c)[idx]) <= _tol(S, c, der))
                        if g2.shape != want2.shape or bad2.any():
                            V('1d-eval-call-style:%s:der%d' % (sname, der), '%s: Spline1D.eval(%s of points%s) off by %.3g' % (
                                key, sname, '' if (der or sname.startswith('int')) else ', der omitted', float(np.abs(g2 - want2).max()) if g2.shape == want2.shape else float('nan')))
                    for xi in ints[:3]:
                        st['evals'] += 1
                        v2 = float(spl.eval(xi, der))
                        k = int(np.where(X == float(xi))[0][0])
                        w2 = float((ref[der][0] @ c)[k])
                        w3 = float((ref[der][1] @ c)[k]) if ref[der][1] is not None else w2
                        if not (abs(v2 - w2) <= _tol(S, c, der) or abs(v2 - w3) <= _tol(S, c, der)):
                            V('1d-eval-call-style:python-int:der%d' % der, '%s: Spline1D.eval(%d, der=%d) = %r, expected %r' % (key, xi, der, v2, w2))
                sc = np.array([spl.eval(float(x), der) for x in X])
                ok, info = agree(sc, c, der)
                if not ok:
                    V('1d-eval-scalar:der%d' % der, '%s coeffs=%s: Spline1D.eval(scalar,der=%d) off by %.3g at x=%r' % (key, name, der, info[0], info[1]))
                if name.startswith('e') and der == 0 and not (got.min() >= -_tol(S, c, 0)):
                    V('basis-negative', '%s: basis function %s takes the value %.3g' % (key, name, got.min()))
            except Exception as e:  # noqa
                V('1d-exception:' + type(e).__name__, '%s coeffs=%s der=%d: %s: %s' % (key, name, der, type(e).__name__, e))
    # BSplines[i]: wrapped basis functions; periodic end-point identities
    # all basis functions are requested first and used afterwards (a caller may keep several of them)
    try:
        held = [bs[i] for i in range(S.n)]
    except Exception:  # noqa
        held = None
    for i in range(S.n):
        st['evals'] += 1
        try:
            b = held[i] if held is not None else bs[i]
        except Exception as e:  # noqa
            V('getitem-exception:' + type(e).__name__, '%s: BSplines[%d] raised %s' % (key, i, e))
            continue
        c = np.zeros(nc)
        c[i] = 1
        if S.per and i < S.d:
            c[S.n + i] = 1
        if not np.array_equal(np.asarray(b.coeffs), c):
            V('getitem-coeffs', '%s: BSplines[%d].coeffs = %r, expected %r' % (key, i, list(b.coeffs), list(c)))
        for der in (0, 1):
            got = np.asarray(b.eval(X, der), dtype=float)
            ok, info = agree(got, c, der)
            if not ok:
                V('getitem-eval:der%d' % der, '%s: BSplines[%d].eval(der=%d) off by %.3g at x=%r' % (key, i, der, info[0], info[1]))
        if S.per:
            a_, b_ = float(X[0]), float(X[-1])
            if not (abs(b.eval(a_, 0) - b.eval(b_, 0)) <= 2 * _tol(S, c, 0)):
                V('periodic-values-differ', '%s: BSplines[%d] S(a)=%r S(b)=%r' % (key, i, b.eval(a_, 0), b.eval(b_, 0)))
            if S.d >= 2 and not (abs(b.eval(a_, 1) - b.eval(b_, 1)) <= 2 * _tol(S, c, 1)):
                V('periodic-slopes-differ', '%s: BSplines[%d] S\'(a)=%r S\'(b)=%r' % (key, i, b.eval(a_, 1), b.eval(b_, 1)))
    # control flow must not depend on the coefficients (supports "a basis decides all data"): compare executed line traces
    if st.get('trace_budget', 0) > 0:
        st['trace_budget'] -= 1
        import sys

        def traced(c, der):
            spl = Spline1D(bs)
            spl.coeffs[:] = c
            lines = []

            def tr(frame, ev, arg):
                if 'spline_eval_funcs' in frame.f_code.co_filename:
                    if ev == 'line':
                        lines.append((frame.f_code.co_name, frame.f_lineno))
                    return tr
                return tr if ev == 'call' else None
            sys.settrace(tr)
            try:
                spl.eval(X, der)
                for x in X[:4]:
                    spl.eval(float(x), der)
            finally:
                sys.settrace(None)
            return lines
        for der in (0, 1):
            t1 = traced(vecs[0][1], der)
            t2 = traced(vecs[-1][1], der)
            t3 = traced(-3.5 * vecs[-1][1] + 1e8, der)
            st['evals'] += 1
            st['trace_checks'] = st.get('trace_checks', 0) + 1
            if not (t1 == t2 == t3) or len(t1) == 0:
                V('control-flow-depends-on-coefficients', '%s der=%d: executed line traces differ between coefficient vectors (%d/%d/%d lines)' % (key, der, len(t1), len(t2), len(t3)))
    # superposition (thorough): e_i + e_j
    if tier == 'thorough':
        for i, j in itertools.combinations(range(nc), 2):
            if j - i > S.d + 1:
                continue
            spl = Spline1D(bs)
            spl.coeffs[i] = 1
            spl.coeffs[j] = 1
            c = np.asarray(spl.coeffs).copy()
            st['evals'] += 1
            ok, info = agree(np.asarray(spl.eval(X, 0), dtype=float), c, 0)
            if not ok:
                V('superposition', '%s: e%d+e%d off by %.3g' % (key, i, j, info[0]))
    # fast path vs general path: same interpolant for the same nodal data
    if S.cu:
        try:
            from pygyro.splines.spline_interpolators import SplineInterpolator1D
            d2 = dict(desc)
            d2['flag'] = False
            bg = splat.make_space(d2)
            Sg = refspline.RefSpace(bg)
            if not np.allclose(bs.greville, bg.greville, rtol=0, atol=1e-13 * max(1.0, abs(float(S.b)))):
                V('paths-different-interpolation-points', '%s: fast path and general path use different interpolation points' % key)
            else:
                ia, ib = SplineInterpolator1D(bs), SplineInterpolator1D(bg)
                cond = max(S.cond_inf(), Sg.cond_inf())
                for i in range(S.n):
                    u = np.zeros(S.n)
                    u[i] = 1
                    sa, sb = Spline1D(bs), Spline1D(bg)
                    ia.compute_interpolant(u, sa)
                    ib.compute_interpolant(u, sb)
                    st['evals'] += 1
                    st['nontrivial'] += 1
                    for der in (0, 1):
                        da = np.asarray(sa.eval(X, der)) - np.asarray(sb.eval(X, der))
                        t = 256 * EPS * cond * (S.d + 1) * (1.0 if der == 0 else S.d / float(min(S.br[k + 1] - S.br[k] for k in range(S.ncells))))
                        if not (np.abs(da).max() <= t):
                            V('paths-disagree:der%d' % der, '%s: interpolant of e%d differs between fast and general path by %.3g (tol %.3g)' % (key, i, np.abs(da).max(), t))
        except Exception as e:  # noqa
            V('paths-exception:' + type(e).__name__, '%s: %s: %s' % (key, type(e).__name__, e))


def _check_2d(da, db, tier, V, st):
    import numpy as np
    from pgv import splat, refspline
    from pygyro.splines.splines import Spline2D
    from pygyro.splines import spline_eval_funcs as NU, cubic_uniform_spline_eval_funcs as CU
    key = splat.space_key(da) + ' x ' + splat.space_key(db)
    b1, b2 = splat.make_space(da), splat.make_space(db)
    if b1.cubic_uniform != b2.cubic_uniform:
        return
    S1, S2 = refspline.RefSpace(b1), refspline.RefSpace(b2)
    X = splat.x_alphabet(splat.breaks_of(da), 'quick', S1.d)
    Y = splat.x_alphabet(splat.breaks_of(db), 'quick', S2.d)
    B1 = {d: np.array([S1.row(x, d) for x in X]) for d in (0, 1)}
    B2 = {d: np.array([S2.row(y, d) for y in Y]) for d in (0, 1)}
    n1, n2 = S1.nc, S2.nc
    kern_vec = CU.cu_eval_spline_2d_vector if b1.cubic_uniform else NU.nu_eval_spline_2d_vector
    XX, YY = np.meshgrid(X, Y, indexing='ij')
    sp = Spline2D(b1, b2)
    dense = [np.array([[((5 * i * i + 3 * j + 7 * i * j) % 13) - 6.0 for j in range(n2)] for i in range(n1)]), np.ones((n1, n2))]
    for d1, d2 in itertools.product((0, 1), repeat=2):
        xi, yi = list(range(len(X))), list(range(len(Y)))          # breakpoints of degree-1 directions included (right-hand slope)
        Xs, Ys = X[xi], Y[yi]
        R1, R2 = B1[d1][xi], B2[d2][yi]
        sc1 = 1.0 if not d1 else S1.d / float(min(S1.br[k + 1] - S1.br[k] for k in range(S1.ncells)))
        sc2 = 1.0 if not d2 else S2.d / float(min(S2.br[k + 1] - S2.br[k] for k in range(S2.ncells)))
        base = 64 * EPS * (S1.d + 1) * (S2.d + 1) * sc1 * sc2
        # tensor entry point: all unit tensors
        for i in range(n1):
            for j in range(n2):
                sp.coeffs[:] = 0
                sp.coeffs[i, j] = 1
                st['evals'] += 1
                st['nontrivial'] += 1
                want = np.outer(R1[:, i], R2[:, j])
                try:
                    got = sp.eval(Xs, Ys, d1, d2)
                except Exception as e:  # noqa
                    V('2d-exception:' + type(e).__name__, '%s der=(%d,%d): %s: %s' % (key, d1, d2, type(e).__name__, e))
                    break
                if not (np.abs(got - want).max() <= base):
                    V('2d-eval-tensor:der%d%d' % (d1, d2), '%s e%d(x)e%d: Spline2D.eval(arrays,der=(%d,%d)) off by %.3g' % (key, i, j, d1, d2, np.abs(got - want).max()))
        for C in dense:
            sp.coeffs[:] = C
            want = R1 @ C @ R2.T
            t = base * max(1.0, np.abs(C).sum())
            st['evals'] += 4
            st['nontrivial'] += 4
            try:
                got = sp.eval(Xs, Ys, d1, d2)
                if not (np.abs(got - want).max() <= t):
                    V('2d-eval-tensor:der%d%d' % (d1, d2), '%s dense: Spline2D.eval(arrays,der=(%d,%d)) off by %.3g' % (key, d1, d2, np.abs(got - want).max()))
                z = np.full(want.shape, np.nan)
                sp.eval_vector(Xs, Ys, z, d1, d2)
                if not (np.abs(z - want).max() <= t):
                    V('2d-eval_vector:der%d%d' % (d1, d2), '%s dense: Spline2D.eval_vector(der=(%d,%d)) off by %.3g' % (key, d1, d2, np.abs(z - want).max()))
                zb = np.full((want.shape[0], 2 * want.shape[1]), np.nan)
                sp.eval_vector(Xs, Ys, zb[:, ::2], d1, d2)
                if not (np.abs(zb[:, ::2] - want).max() <= t) or not np.isnan(zb[:, 1::2]).all():
                    V('2d-eval_vector-strided-output:der%d%d' % (d1, d2), '%s dense: Spline2D.eval_vector into a strided view off by %.3g (or wrote outside the view)' % (
                        key, np.abs(zb[:, ::2] - want).max()))
                ox = np.array(sorted(range(len(Xs)), key=lambda i: (i * 7919 + 13) % 10007))[::-1]
                oy = np.array(sorted(range(len(Ys)), key=lambda i: (i * 104729 + 5) % 10007))
                zo = np.full(want.shape, np.nan)
                sp.eval_vector(np.ascontiguousarray(Xs[ox]), np.ascontiguousarray(Ys[oy]), zo, d1, d2)
                if not (np.abs(zo - want[np.ix_(ox, oy)]).max() <= t):
                    V('2d-array-order-dependent:der%d%d' % (d1, d2), '%s dense: Spline2D.eval_vector on scrambled point arrays off by %.3g' % (key, np.abs(zo - want[np.ix_(ox, oy)]).max()))
                sc = np.array([[sp.eval(float(x), float(y), d1, d2) for y in Ys] for x in Xs])
                if not (np.abs(sc - want).max() <= t):
                    V('2d-eval-scalar:der%d%d' % (d1, d2), '%s dense: Spline2D.eval(scalars,der=(%d,%d)) off by %.3g' % (key, d1, d2, np.abs(sc - want).max()))
                xx, yy = XX[np.ix_(xi, yi)].ravel(), YY[np.ix_(xi, yi)].ravel()
                zv = np.full(xx.size, np.nan)
                kern_vec(xx, yy, b1.knots, b1.degree, b2.knots, b2.degree, sp.coeffs, zv, d1, d2)
                if not (np.abs(zv.reshape(want.shape) - want).max() <= t):
                    V('2d-kernel-vector:der%d%d' % (d1, d2), '%s dense: *_eval_spline_2d_vector(der=(%d,%d)) off by %.3g' % (key, d1, d2, np.abs(zv.reshape(want.shape) - want).max()))
            except Exception as e:  # noqa
                V('2d-exception:' + type(e).__name__, '%s der=(%d,%d): %s: %s' % (key, d1, d2, type(e).__name__, e))


def run_case(case):
    viols = {}
    st = {'evals': 0, 'nontrivial': 0}

    def V(sig, what):
        viols.setdefault(sig, {'sig': sig, 'what': what, 'detail': {}})
    if case['kind'] == '1d':
        st['trace_budget'] = 1 if case['tier'] == 'quick' else 3
        for desc in case['descs']:
            _check_1d(desc, case['tier'], V, st)
        sample = {'space': case['descs'][0]}
    else:
        _check_2d(case['a'], case['b'], case['tier'], V, st)
        sample = {'a': case['a'], 'b': case['b']}
    return {'evals': st['evals'], 'nontrivial': st['nontrivial'], 'violations': list(viols.values()),
            'stats': {'control_flow_trace_checks': st.get('trace_checks', 0)}, 'sample': sample}
