"""C13 Parallel gradient is the field-aligned finite-difference derivative."""
import itertools

PROPERTY = 'C13'
LEVEL = 'exploration'
TIMEOUT_S = 1200
RULE = ('order 2..6 x nz in {order+1, order+2, 9} x n_theta in {4,5,8} x theta spline path (uniform cubic / general, non-uniform) x iota in {0, 0.8, 40, '
        'r-dependent profile, flat with a local bump} x every radial index of a radially distributed v_parallel_1d layout on process grids 1, 2, 3 (object built per rank '
        'with that rank\'s Layout, as the driver does) and of two other orderings ((z,r,theta) on 2x3, (theta,z,r) on 2x2); data = every unit impulse (full operator matrix, selected configurations), constant, '
        'field-aligned function, dense; every (object, radius) is called three times (state must not change between calls); oracle = finite-'
        'difference weights from an exact rational Vandermonde solve (centred stencil for even order), exact-rational theta evaluation matrices along '
        'the field line, factor b_z(r)/dz of the global radius; identities: constants -> 0, commutation with z shifts; an evaluation is one '
        'parallel_gradient call; non-trivial = rank whose radial block does not start at 0, or iota != 0')
ASSUMPTIONS = ['pgv.refspline', 'the order statement is the exact weight identity sum_j c_j s_j^i = delta_i1 (i<=order); no convergence rates are measured',
               'tolerance 1e-11*||A^-1||_inf*max|phi|*sum|c_j|*b_z/dz']

SPACES = {'quick': [('cu', 3, None), ('nu', 2, [1, 2, 1.5])], 'thorough': [('cu', 3, None), ('nu', 2, [1, 2, 1.5]), ('nu', 3, [1, 1.7]), ('nu', 5, None)]}


def cases(tier, seed):
    out = []
    for order in (2, 3, 4, 5, 6):
        for nz in sorted(set([order + 1, order + 2, 9])):
            for nq in ((4, 8) if tier == 'quick' else (4, 5, 8)):
                for sp in SPACES[tier]:
                    if sp[1] > nq:
                        continue
                    for iota in (0.0, 0.8, 40.0, 'profile', 'bump'):
                        out.append({'order': order, 'nz': nz, 'nq': nq, 'space': list(sp), 'iota': iota, 'cost': nz * nq * 5})
    return out


def _fd_weights(order):
    from fractions import Fraction as F
    from pgv import refspline
    n = order + 1
    start = 1 - (n + 1) // 2
    sh = list(range(start, start + n))
    A = [[F(s) ** i for s in sh] for i in range(n)]
    b = [F(int(i == 1)) for i in range(n)]
    return sh, [float(x) for x in refspline.solve(A, b)]


def run_case(case):
    import math
    import numpy as np
    from pgv import sim, ops, refspline
    sim.setup()
    from pygyro.model.layout import Layout
    from pygyro.advection.advection import ParallelGradient
    from pygyro.initialisation.constants import Constants
    order, nz, nq = case['order'], case['nz'], case['nq']
    kind, deg, warp = case['space']
    iota = case['iota']
    viols = {}

    def V(sig, what):
        viols.setdefault(sig, {'sig': sig, 'what': what, 'detail': {}})
    tag = 'order=%d nz=%d ntheta=%d theta-spline=%s iota=%s' % (order, nz, nq, case['space'], iota)
    c = Constants()
    tp = 2 * math.pi
    dz = 0.5 if nz % 2 else 0.37          # a dyadic and a non-dyadic cell size
    # a full torus (z period = 2 pi R0) for half of the cases, a z domain of another length for the other half (the twist
    # per cell is iota*dz/R0, whatever the length of the domain)
    c.R0 = nz * dz / tp * (1.7 if (order + nz) % 2 else 1.0)
    R0 = c.R0
    if iota == 'profile':
        c.iotaVal = 0.8
        iota_of = lambda r: 0.8 * (1 + 0.4 * np.asarray(r, dtype=float))       # noqa
        c.iota = lambda r=None: iota_of(r)
    elif iota == 'bump':
        # flat with a local shear bump at one interior radius: equal at both ends of some radial blocks, different inside
        c.iotaVal = 0.8
        iota_of = lambda r: 0.8 + 0.3 * np.maximum(0.0, 1 - ((np.asarray(r, dtype=float) - 0.45) / 0.1) ** 2)       # noqa
        c.iota = lambda r=None: iota_of(r)
    else:
        c.iotaVal = iota
        iota_of = lambda r: iota + 0 * np.asarray(r, dtype=float)               # noqa
    import copy
    c_alt = copy.copy(c)
    c_alt.R0 = 1.9 * c.R0
    c_alt.iotaVal = 0.35
    c_alt.iota = lambda r=None: 0.35 + 0.2 * np.asarray(r, dtype=float)
    bth = ops.mkspace(nq, 0.0, tp, deg, True, kind == 'cu', warp)
    S = refspline.RefSpace(bth)
    cond = S.cond_inf()
    rgrid = np.array([0.0, 0.2, 0.45, 0.6, 0.9])
    q = np.asarray(bth.greville, dtype=float)
    eta = [rgrid, q, -1.7 + np.arange(nz) * dz]        # zMin != 0
    sh, cf = _fd_weights(order)
    I = np.indices((nz, nq)).astype(float)
    dense = np.cos(1.3 * I[1] + 0.4) * (1 + 0.3 * I[0]) + 0.1 * I[0] ** 2 - 0.2 * I[0] * I[1]
    evals = nontriv = 0
    worst = 0.0
    # the layouts the object is built with: the driver's radially distributed (r, z, theta) layout on process grids 1, 2, 3, and two
    # other orderings of the same three dimensions whose permutation is not its own inverse ((z, r, theta) with z and r distributed,
    # (theta, z, r) with r whole): the local radii are those of the position that holds r, wherever it is
    worlds = [(p, rank, 'v_parallel_1d', [p], [0, 2, 1], [rank]) for p in (1, 2, 3) for rank in range(p)]
    worlds += [('2x3', rk, 'z_r_theta', [2, 3], [2, 0, 1], list(rk)) for rk in ((1, 0), (0, 1), (1, 2))]
    worlds += [('2x2', rk, 'theta_z_r', [2, 2], [1, 2, 0], list(rk)) for rk in ((0, 1), (1, 0))]
    for p, rank, lname, lnp, lorder, lrank in worlds:
        if True:
            lay = Layout(lname, lnp, lorder, eta, lrank)
            rpos = lorder.index(0)
            try:
                if c_alt is not None:
                    ParallelGradient(bth, eta, lay, c_alt, order)          # another operator on the same grids for another field geometry, built first
                pg = ParallelGradient(bth, eta, lay, c, order)
            except Exception as e:  # noqa
                V('construct:' + type(e).__name__, '%s p=%s rank=%s: %s: %s' % (tag, p, rank, type(e).__name__, e))
                continue
            r0 = int(lay.starts[rpos])
            for i in range(int(lay.shape[rpos])):
                Ig = r0 + i
                r = rgrid[Ig]
                io = float(iota_of(r))
                bz = 1.0 / math.sqrt(1 + (r * io / R0) ** 2)
                E = [ops.eval_matrix(S, ops.wrap(q + io * dz * s / R0, 0.0, tp)) for s in sh]

                def ref(phi):
                    out = np.zeros(phi.shape, dtype=float)
                    for k in range(nz):
                        for s, cc, Es in zip(sh, cf, E):
                            out[k, :] += cc * (Es @ phi[(k + s) % nz, :])
                    return out * bz / dz
                cplx = (dense * (1 + 0.5j) + 0.25j)
                datas = [('const', np.full((nz, nq), 1.75)), ('dense', dense), ('dense-again', dense), ('dense-third', dense), ('strided-real-view', np.real(cplx)), ('tiny', 1e-20 * dense), ('integer-typed', np.rint(7 * dense).astype(np.int64))]      # the operator is linear in phi; the potential may be given as an integer array
                if lname != 'v_parallel_1d':
                    datas = datas[:2] + datas[-2:]
                if (p, rank) in ((1, 0), (3, 2)) and i == int(lay.shape[0]) - 1:
                    for a, b in itertools.product(range(nz), range(nq)):
                        e = np.zeros((nz, nq))
                        e[a, b] = 1.0
                        datas.append(('impulse(%d,%d)' % (a, b), e))
                for name, phi in datas:
                    der = np.full((nz, nq), np.nan)
                    if name in ('dense-third', 'strided-real-view'):
                        der = np.full((nz, nq, 2), np.nan)[:, :, 0]          # a strided window of a larger array is a legal output too
                    evals += 1
                    if r0 > 0 or io != 0:
                        nontriv += 1
                    try:
                        pg.parallel_gradient(phi if name == 'strided-real-view' else phi.copy(), i, der)
                    except Exception as e:  # noqa
                        V('exception:' + type(e).__name__, '%s p=%s rank=%s local r index %d data=%s: %s: %s' % (tag, p, rank, i, name, type(e).__name__, e))
                        break
                    want = ref(phi)
                    tol = 1e-11 * cond * max(1e-300, np.abs(phi).max()) * sum(abs(x) for x in cf) * bz / dz          # relative to the data
                    err = np.abs(der - want).max()
                    worst = max(worst, err / tol)
                    if not err <= tol:
                        kindv = 'repeated-call' if name in ('dense-again', 'dense-third') and 'gradient-differs' not in ' '.join(viols) else ('impulse' if name.startswith('imp') else 'data')
                        V('gradient-differs:' + kindv, '%s process grid %s rank %s global r index %d data=%s: max error %.3g (tol %.3g)' % (tag, p, rank, Ig, name, err, tol))
                    if name == 'const' and not np.abs(der).max() <= tol:
                        V('constant-not-annihilated', '%s p=%s rank=%s r index %d: gradient of a constant is %.3g' % (tag, p, rank, Ig, np.abs(der).max()))
                    if name == 'dense':
                        d2 = np.full((nz, nq), np.nan)
                        pg.parallel_gradient(np.roll(phi, 1, axis=0).copy(), i, d2)
                        evals += 1
                        if not np.abs(d2 - np.roll(want, 1, axis=0)).max() <= tol:
                            V('no-commutation-with-z-shift', '%s p=%s rank=%s r index %d: gradient(roll(phi)) != roll(gradient(phi))' % (tag, p, rank, Ig))
    return {'evals': evals, 'nontrivial': nontriv, 'violations': list(viols.values()), 'stats': {'max_err_over_tol': worst},
            'sample': {'config': tag, 'calls': evals, 'fd_shifts': sh, 'fd_weights': cf}}
