"""C08 Interpolants reproduce their data and all polynomials of the spline degree."""
import itertools

PROPERTY = 'C08'
LEVEL = 'exploration'
TIMEOUT_S = 1200
RULE = ('same structural lattice of 1-D spaces as C07; data = every unit vector at the interpolation points, monomials x^k (k<=d) on '
        'clamped spaces, two badly scaled vectors, complex data on clamped spaces; 2-D: every e_i (x) e_j and separable monomials on '
        'pairs of spaces covering all boundary combinations and unequal degrees; oracle = exact rational solution of the collocation '
        'system (pgv.refspline), S(x_i)=u_i through the real eval, polynomial reproduction at the C07 x alphabet, periodic wrap '
        'c[n:n+p]==c[:p] along every periodic axis; an evaluation is one (space, data vector); non-trivial = non-uniform or periodic '
        'or fast-path space')
ASSUMPTIONS = ['tolerance 64*eps*||A^-1||_inf*(d+1)*||u||_inf with ||A^-1|| computed exactly', 'interpolation points are the ones the space advertises (basis.greville)']

_HELD = []          # a complex interpolator kept from an earlier space of this process (see _check_1d)
EPS = 2.220446049250313e-16


def cases(tier, seed):
    from pgv import splat
    out = []
    descs = splat.space_descs(tier)
    chunk = 8
    for i in range(0, len(descs), chunk):
        out.append({'kind': '1d', 'descs': descs[i:i + chunk], 'tier': tier, 'cost': sum(len(d['widths']) ** 2 for d in descs[i:i + chunk])})

    def D(d, per, w, flag=False, scale=1.0, off=0.0):
        return {'degree': d, 'periodic': per, 'widths': list(w), 'flag': flag, 'scale': scale, 'offset': off}
    cu = [D(3, True, [1, 1, 1, 1], True), D(3, False, [1, 1, 1], True, 2.0, -1.0), D(3, False, [1, 1, 1, 1, 1], True, 0.5, 0.25), D(3, True, [1, 1, 1], True, 0.1, 0.3),
          D(3, False, [1], True), D(3, True, [1, 1, 1, 1, 1, 1], True, 0.7, 0.0)]
    nu = [D(1, False, [1, 2]), D(1, True, [2, 1, 1]), D(2, False, [1, 3, 1, 2]), D(2, True, [1, 2, 1]), D(3, True, [2, 1, 2, 1]), D(3, False, [1, 1, 1, 1]),
          D(3, False, [1, 2, 3]), D(3, False, [3, 1, 2]), D(2, True, [2, 1, 3]), D(2, True, [1, 1]), D(4, True, [1, 1, 2, 1, 1]), D(5, False, [1, 2])]
    if tier == 'thorough':
        nu += [D(4, False, [2, 1]), D(5, True, [1, 1, 1, 2, 1, 1]), D(2, False, [1]), D(1, False, [1]), D(1, True, [1]), D(3, True, [1, 1, 1])]
    for fam in (cu, nu):
        for a, b in itertools.product(fam, repeat=2):
            out.append({'kind': '2d', 'a': a, 'b': b, 'tier': tier, 'cost': 10 * (len(a['widths']) + a['degree']) * (len(b['widths']) + b['degree'])})
    return out


def _check_1d(desc, tier, V, st):
    import numpy as np
    from pgv import splat, refspline
    from pygyro.splines.splines import Spline1D
    from pygyro.splines.spline_interpolators import SplineInterpolator1D
    key = splat.space_key(desc)
    cls = '%s-%s' % ('per' if desc['periodic'] else 'cl', 'cu' if (desc['flag'] and desc['degree'] == 3) else 'general')
    try:
        bs = splat.make_space(desc)
        itp = SplineInterpolator1D(bs)
    except Exception as e:  # noqa
        V('construct:%s:%s' % (cls, type(e).__name__), 'SplineInterpolator1D(%s) raised %s: %s' % (key, type(e).__name__, e))
        return
    S = refspline.RefSpace(bs)
    try:
        cond = S.cond_inf()
    except StopIteration:
        V('reference-singular', '%s: collocation matrix is singular in exact arithmetic' % key)
        return
    n, d = S.n, S.d
    pts = np.asarray(bs.greville, dtype=float)
    X = splat.x_alphabet(splat.breaks_of(desc), tier, d)
    nontriv = (len(set(desc['widths'])) > 1) or S.cu or S.per
    data = [('e%d' % i, np.eye(n)[i]) for i in range(n)]
    data.append(('scaled1', np.array([10.0 ** (8 - 16 * (i % 2)) for i in range(n)])))
    data.append(('scaled2', np.array([10.0 ** (-8 + 16 * i / max(1, n - 1)) for i in range(n)])))
    data.append(('integer-typed', np.array([((7 * i * i + 3 * i) % 11) - 5 for i in range(n)], dtype=np.int64)))      # data handed over as an integer array
    if not S.per:
        for k in range(d + 1):
            data.append(('x^%d' % k, pts ** k))
    Rpts = np.array([S.row(x, 0) for x in pts])
    RX = np.array([S.row(x, 0) for x in X])
    for k_item, (name, u) in enumerate(data):
        if k_item == 1:
            # the same object is asked for its quadrature weights in between: later interpolations must not notice
            try:
                itp.get_quadrature_coefficients()
            except Exception as e:  # noqa
                V('interp-exception:%s:%s' % (cls, type(e).__name__), '%s: get_quadrature_coefficients(): %s: %s' % (key, type(e).__name__, e))
        st['evals'] += 1
        if nontriv:
            st['nontrivial'] += 1
        tol = 64 * EPS * cond * (d + 1) * max(1e-300, float(np.abs(u).max()))
        spl = Spline1D(bs)
        try:
            itp.compute_interpolant(u.copy(), spl)
        except Exception as e:  # noqa
            V('interp-exception:%s:%s' % (cls, type(e).__name__), '%s data=%s: %s: %s' % (key, name, type(e).__name__, e))
            continue
        c = np.asarray(spl.coeffs, dtype=float)
        want = S.coeffs(np.asarray(u, dtype=float))
        if not (np.abs(c - want).max() <= tol):
            V('coefficients:' + cls, '%s data=%s: coefficients off by %.3g (tol %.3g)' % (key, name, np.abs(c - want).max(), tol))
        if S.per and not np.array_equal(c[n:n + d], c[:d]):
            V('periodic-wrap:' + cls, '%s data=%s: c[n:n+p] != c[:p]' % (key, name))
        got = np.array([spl.eval(float(x)) for x in pts])
        if not (np.abs(got - u).max() <= tol):
            V('data-not-reproduced:' + cls, '%s data=%s: max |S(x_i)-u_i| = %.3g (tol %.3g)' % (key, name, np.abs(got - u).max(), tol))
        if name.startswith('x^'):
            k = int(name[2:])
            gx = np.asarray(spl.eval(X), dtype=float)
            t2 = 64 * EPS * cond * (d + 1) * max(1.0, float(np.abs(X).max()) ** k)
            if not (np.abs(gx - X ** k).max() <= t2):
                V('polynomial-not-reproduced:' + cls, '%s: x^%d reproduced with error %.3g (tol %.3g)' % (key, k, np.abs(gx - X ** k).max(), t2))
    # complex data on clamped spaces
    # a complex interpolator built for an EARLIER (other) space is used again now that further real and complex interpolators
    # exist in this process: interpolators do not share anything that depends on the order or size of construction
    if _HELD:
        hkey, hitc, hbs, hS, hpts, hcond = _HELD[0]
        try:
            st['evals'] += 1
            if nontriv:
                st['nontrivial'] += 1
            uh, vh = np.cos(hpts) + 0.5, np.sin(2 * hpts) - 0.25
            sph = Spline1D(hbs, complex)
            hitc.compute_interpolant((uh + 1j * vh).astype(complex), sph)
            wanth = hS.coeffs(uh) + 1j * hS.coeffs(vh)
            th = 64 * EPS * hcond * (hS.d + 1) * 1.5
            if not (np.abs(np.asarray(sph.coeffs) - wanth).max() <= th):
                V('complex-coefficients:earlier-interpolator-reused', 'complex interpolator of %s used again after interpolators for %s were built: coefficients off by %.3g' % (
                    hkey, key, np.abs(np.asarray(sph.coeffs) - wanth).max()))
        except Exception as e:  # noqa
            V('complex-exception:earlier-interpolator-reused:%s' % type(e).__name__, '%s after %s: %s: %s' % (hkey, key, type(e).__name__, e))
    if not S.per:
        try:
            itc = SplineInterpolator1D(bs, dtype=complex)
            if not _HELD or len(pts) < len(_HELD[0][4]):
                _HELD[:] = [(key, itc, bs, S, pts, cond)]          # keep the smallest one seen: later spaces are larger
            for name, u, v in (('e0+i e1', np.eye(n)[0], np.eye(n)[min(1, n - 1)]), ('poly', pts ** min(d, 2), 1.0 - pts), ('dense', np.cos(pts), 2.5 * np.sin(3 * pts) - 1),
                               ('dense*1e-17', 1e-17 * np.cos(pts), 1e-17 * (2.5 * np.sin(3 * pts) - 1)), ('tiny-imaginary-part', np.cos(pts), 1e-16 * (2.5 * np.sin(3 * pts) - 1))):
                st['evals'] += 1
                if nontriv:
                    st['nontrivial'] += 1
                z = (u + 1j * v).astype(complex)
                splc = Spline1D(bs, complex)
                itc.compute_interpolant(z, splc)
                want = S.coeffs(u) + 1j * S.coeffs(v)
                got_c = np.asarray(splc.coeffs)
                # real and imaginary parts are solved independently (real matrix): each is judged against its own scale
                tr = 64 * EPS * cond * (d + 1) * max(1e-300, float(np.abs(u).max()))
                ti = 64 * EPS * cond * (d + 1) * max(1e-300, float(np.abs(v).max()))
                if not (np.abs(got_c.real - want.real).max() <= tr and np.abs(got_c.imag - want.imag).max() <= ti):
                    V('complex-coefficients:' + cls, '%s data=%s: complex coefficients off by %.3g (real part) / %.3g (imaginary part, scale %.3g)' % (
                        key, name, np.abs(got_c.real - want.real).max(), np.abs(got_c.imag - want.imag).max(), float(np.abs(v).max())))
        except Exception as e:  # noqa
            V('complex-exception:%s:%s' % (cls, type(e).__name__), '%s: complex interpolation raised %s: %s' % (key, type(e).__name__, e))
    # interpolator and spline created with different dtype arguments (real data): the coefficients are still the solution
    for idt, sdt in ((float, complex),):          # (complex interpolator, real spline) is refused by the library itself on periodic spaces
        try:
            import warnings
            iti = SplineInterpolator1D(bs, dtype=idt)
            spm = Spline1D(bs, sdt)
            u = np.cos(pts) + 0.3 * pts
            st['evals'] += 1
            if nontriv:
                st['nontrivial'] += 1
            with warnings.catch_warnings():
                warnings.simplefilter('ignore')
                iti.compute_interpolant(u.astype(idt), spm)
            want = S.coeffs(u)
            tol = 64 * EPS * cond * (d + 1) * max(1.0, float(np.abs(u).max()))
            if not (np.abs(np.asarray(spm.coeffs) - want).max() <= tol):
                V('mixed-dtype-coefficients:' + cls, '%s: %s interpolator with %s spline: coefficients off by %.3g' % (
                    key, idt.__name__, sdt.__name__, np.abs(np.asarray(spm.coeffs) - want).max()))
        except Exception as e:  # noqa
            V('mixed-dtype-exception:%s:%s' % (cls, type(e).__name__), '%s: %s interpolator with %s spline raised %s: %s' % (key, idt.__name__, sdt.__name__, type(e).__name__, e))


def _check_2d(da, db, tier, V, st):
    import numpy as np
    from pgv import splat, refspline
    from pygyro.splines.splines import Spline2D
    from pygyro.splines.spline_interpolators import SplineInterpolator2D
    key = splat.space_key(da) + ' x ' + splat.space_key(db)
    b1, b2 = splat.make_space(da), splat.make_space(db)
    if b1.cubic_uniform != b2.cubic_uniform:
        return
    cls = '%s%s' % ('P' if b1.periodic else 'C', 'P' if b2.periodic else 'C')
    S1, S2 = refspline.RefSpace(b1), refspline.RefSpace(b2)
    try:
        itp = SplineInterpolator2D(b1, b2)
    except Exception as e:  # noqa
        V('2d-construct:' + type(e).__name__, '%s: %s: %s' % (key, type(e).__name__, e))
        return
    n1, n2 = S1.n, S2.n
    p1, p2 = S1.d, S2.d
    cond = S1.cond_inf() * S2.cond_inf()
    x1 = np.asarray(b1.greville, dtype=float)
    x2 = np.asarray(b2.greville, dtype=float)
    data = []
    for i in range(n1):
        for j in range(n2):
            U = np.zeros((n1, n2))
            U[i, j] = 1
            data.append(('e%d(x)e%d' % (i, j), U))
    if not S1.per and not S2.per:
        data.append(('x^p1*y^p2', np.outer(x1 ** p1, x2 ** p2)))
    data.append(('dense', np.cos(x1)[:, None] * (1 + x2)[None, :] + np.sin(2 * x2)[None, :]))
    spl = Spline2D(b1, b2)
    for name, U in data:
        st['evals'] += 1
        st['nontrivial'] += 1
        tol = 64 * EPS * cond * (p1 + 1) * (p2 + 1) * max(1.0, float(np.abs(U).max()))
        try:
            itp.compute_interpolant(U.copy(), spl)
        except Exception as e:  # noqa
            V('2d-interp-exception:' + type(e).__name__, '%s data=%s: %s: %s' % (key, name, type(e).__name__, e))
            return
        C = np.asarray(spl.coeffs)
        want = refspline.coeffs2d(S1, S2, U)
        if not (np.abs(C - want).max() <= tol):
            V('2d-coefficients:' + cls, '%s data=%s: coefficients off by %.3g (tol %.3g)' % (key, name, np.abs(C - want).max(), tol))
        if S1.per and not np.array_equal(C[n1:n1 + p1, :], C[:p1, :]):
            V('2d-periodic-wrap-axis1:' + cls, '%s data=%s: wrapped coefficients along axis 1 inconsistent' % (key, name))
        if S2.per and not np.array_equal(C[:, n2:n2 + p2], C[:, :p2]):
            V('2d-periodic-wrap-axis2:' + cls, '%s data=%s: wrapped coefficients along axis 2 inconsistent' % (key, name))
        got = spl.eval(x1, x2)
        if not (np.abs(got - U).max() <= tol):
            V('2d-data-not-reproduced:' + cls, '%s data=%s: max |S(x_i,y_j)-u_ij| = %.3g (tol %.3g)' % (key, name, np.abs(got - U).max(), tol))


def run_case(case):
    viols = {}
    st = {'evals': 0, 'nontrivial': 0}

    def V(sig, what):
        viols.setdefault(sig, {'sig': sig, 'what': what, 'detail': {}})
    if case['kind'] == '1d':
        for desc in case['descs']:
            _check_1d(desc, case['tier'], V, st)
        sample = {'space': case['descs'][0]}
    else:
        _check_2d(case['a'], case['b'], case['tier'], V, st)
        sample = {'a': case['a'], 'b': case['b']}
    return {'evals': st['evals'], 'nontrivial': st['nontrivial'], 'violations': list(viols.values()), 'stats': {}, 'sample': sample}
