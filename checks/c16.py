"""C16 Density is the exact velocity integral of the interpolated distribution."""
import itertools

PROPERTY = 'C16'
LEVEL = 'exploration'
TIMEOUT_S = 900
RULE = ('n_v in {4,5 (one and two cells of the uniform cubic v spline),6,7,10} x process grids (ranks whose block does not start at r-index 0 or z-index 0) x real / complex density storage x spline path of the '
        'v basis; f = unit impulse along v at every (r,theta,z) position class of the block, the equilibrium, a dense field; getPerturbedRho and getRho, each '
        'called on a density grid pre-filled with NaN+NaN*j poison and called twice (two finders), plus a third finder built for another equilibrium on the same grids; oracle = exact-rational quadrature weights of the v interpolant '
        '(pgv.refspline) and an independently coded closed-form equilibrium at the point\'s *global* radius; equilibrium f gives exactly 0; an evaluation is '
        'one density call on one rank; non-trivial = rank whose radial block starts at index > 0, or complex storage')
ASSUMPTIONS = ['pgv.refspline exact weights', 'tolerance 64*eps*||A^-1||*(d+1)*(vMax-vMin)*max|f| per point', 'simmpi layouts']

NPTS_BASE = [7, 5, 4]      # 7 radial points: uneven blocks for 2..6 radial processes, larger blocks not always last


def cases(tier, seed):
    out = []
    grids = [(1, 1), (2, 1), (3, 1), (4, 1), (5, 1), (2, 2), (1, 3), (3, 2)] if tier == 'quick' else [(1, 1), (2, 1), (3, 1), (4, 1), (5, 1), (6, 1), (2, 2), (1, 3), (3, 2), (4, 2), (2, 3), (1, 4), (5, 2), (3, 4)]
    for nv, g, cplx, vdeg in itertools.product((6, 7, 10), grids, (False, True), (3, 2)):
        if tier == 'quick' and vdeg == 2 and (nv != 7 or g not in ((2, 2), (3, 1))):
            continue
        out.append({'nv': nv, 'grid': list(g), 'complex': cplx, 'vdeg': vdeg, 'cost': 20 * g[0] * g[1]})
    # the smallest v grids: 4 and 5 points are 1 and 2 cells of the default uniform cubic v spline (basis functions cut by both ends)
    for nv in (4, 5):
        for g in ((1, 1), (2, 1), (4, 1), (2, 2)):
            out.append({'nv': nv, 'grid': list(g), 'complex': False, 'vdeg': 3, 'cost': 20 * g[0] * g[1]})
    return out


def run_case(case):
    import numpy as np
    from pgv import sim, ops, refspline
    MPI = sim.setup()
    from pygyro.initialisation.setups import setupCylindricalGrid
    from pygyro.model.layout import getLayoutHandler
    from pygyro.model.grid import Grid
    from pygyro.poisson.poisson_solver import DensityFinder
    viols = {}

    def V(sig, what):
        viols.setdefault(sig, {'sig': sig, 'what': what, 'detail': {}})
    nv = case['nv']
    npts = NPTS_BASE + [nv]
    grid = case['grid']
    dtype = np.complex128 if case['complex'] else np.float64
    tag = 'npts=%r grid=%r %s vdegree=%d' % (npts, grid, 'complex' if case['complex'] else 'float', case['vdeg'])
    EPS = 2.220446049250313e-16

    def fn(r):
        comm = MPI.COMM_WORLD
        probs = []
        f, c, t = setupCylindricalGrid(layout='v_parallel', npts=list(npts), comm=comm, eps=0.0, splineDegrees=[3, 3, 3, case['vdeg']], vMin=-6.1, **ops.GENERIC)
        eta = f.eta_grid
        lp = {'v_parallel_2d': [0, 2, 1], 'mode_solve': [1, 2, 0]}
        np2 = f.getLayout('v_parallel').nprocs[:2]
        h = getLayoutHandler(comm, lp, np2, eta[:3])
        rho = Grid(eta[:3], [None] * 3, h, 'v_parallel_2d', comm, dtype=dtype)
        # several finders on the same v basis (e.g. one per species): building a second one must not disturb the first
        dens_first = DensityFinder(6, f.getSpline(3), eta, c)
        dens = DensityFinder(6, f.getSpline(3), eta, c)
        # ... and one for another equilibrium on the same grids (another species: other temperature and density profiles), built after
        # the two above and before any of them is used; each finder subtracts its OWN equilibrium
        import copy
        c_other = copy.copy(c)
        c_other.CTi, c_other.kTi, c_other.kN0, c_other.CN0 = 1.37 * c.CTi, 0.6 * c.kTi, 1.7 * c.kN0, 0.8 * c.CN0
        dens_other = DensityFinder(6, f.getSpline(3), eta, c_other)
        S = refspline.RefSpace(f.getSpline(3))
        w = np.array([float(x) for x in S.weights_exact()])
        cond = S.cond_inf()
        l = f.getLayout('v_parallel')
        r0 = int(l.starts[0])
        rI = np.arange(r0, int(l.ends[0]))
        feq = np.array([[ops.feq(c, eta[0][i], v) for v in eta[3]] for i in rI])
        feq_other = np.array([[ops.feq(c_other, eta[0][i], v) for v in eta[3]] for i in rI])
        span = float(eta[3][-1] - eta[3][0])
        poison = complex(np.nan, np.nan) if case['complex'] else np.nan
        feq_field = f.getAllData().copy()
        gi = sim.global_index_arrays(l)
        fields = [('equilibrium', feq_field), ('dense', feq_field * (1 + 0.3 * np.sin(1.0 + gi[0] * 1.3 + gi[1] * 0.7 + gi[2] * 2.1 + gi[3] * 0.9)))]
        # amplitudes far from 1: nothing may be treated as zero by an absolute tolerance (density is linear in f)
        fields.append(('tiny', 1e-20 * (1 + 0.3 * np.sin(1.0 + gi[0] * 1.3 + gi[1] * 0.7 + gi[2] * 2.1 + gi[3] * 0.9))))
        shp = feq_field.shape
        for pos in itertools.product(*[sorted(set([0, n - 1])) for n in shp[:3]]):
            for lv in range(nv):
                e = np.zeros(shp)
                e[pos + (lv,)] = 1.0
                fields.append(('impulse%r' % (pos + (lv,),), e))
        n_eval = 0
        for name, F in fields:
            f.getAllData()[:] = F
            for call in (1, 2, 3):
                for which in ('perturbed', 'full'):
                    if call == 3 and (which == 'full' or name.startswith('impulse') and not name.endswith(', 0)')):
                        continue
                    rho.getAllData()[:] = poison
                    n_eval += 1
                    d_ = dens_first if call == 2 else (dens_other if call == 3 else dens)
                    if which == 'perturbed':
                        d_.getPerturbedRho(f, rho)
                        want = np.einsum('ijkl,l->ijk', F - (feq_other if call == 3 else feq)[:, None, None, :], w)
                    else:
                        d_.getRho(f, rho)
                        want = np.einsum('ijkl,l->ijk', F, w)
                    got = rho.getAllData()
                    tol = 64 * EPS * cond * (S.d + 1) * span * max(1e-300, np.abs(F).max() + (np.abs(feq).max() if which == 'perturbed' else 0.0))
                    if case['complex'] and not (np.abs(got.imag).max() == 0):
                        probs.append(('imaginary-part-not-zero', '%s %s call %d: imaginary part %r' % (name, which, call, np.abs(got.imag).max())))
                    err = np.abs(got.real - want).max() if not np.isnan(got.real).any() else np.inf
                    if not err <= tol:
                        probs.append(('density-differs:' + which, '%s %s call %d on rank %d (radial block starts at %d): max error %.3g (tol %.3g)' % (name, which, call, r, r0, err, tol)))
                    if name == 'equilibrium' and which == 'perturbed' and call != 3 and np.abs(got).max() != 0:
                        probs.append(('equilibrium-density-not-zero', 'perturbed density of the equilibrium is %r on rank %d' % (np.abs(got).max(), r)))
        # the same finder applied to a second distribution function that is distributed differently (half of the world, hence
        # another radial block on this rank): nothing a call leaves in the finder may depend on the grid of the previous call
        if comm.Get_size() >= 2:
            sub = comm.Split(r % 2, r)
            f2, c2, t2 = setupCylindricalGrid(layout='v_parallel', npts=list(npts), comm=sub, eps=0.0, splineDegrees=[3, 3, 3, case['vdeg']], vMin=-6.1, **ops.GENERIC)
            l2 = f2.getLayout('v_parallel')
            h2 = getLayoutHandler(sub, lp, l2.nprocs[:2], eta[:3])
            rho2 = Grid(eta[:3], [None] * 3, h2, 'v_parallel_2d', sub, dtype=dtype)
            rI2 = np.arange(int(l2.starts[0]), int(l2.ends[0]))
            feq2 = np.array([[ops.feq(c, eta[0][i], v) for v in eta[3]] for i in rI2])
            gi2 = sim.global_index_arrays(l2)
            F2 = f2.getAllData() * (1 + 0.3 * np.sin(1.0 + gi2[0] * 1.3 + gi2[1] * 0.7 + gi2[2] * 2.1 + gi2[3] * 0.9))
            f2.getAllData()[:] = F2
            for d_ in (dens, dens_first):
                rho2.getAllData()[:] = poison
                n_eval += 1
                d_.getPerturbedRho(f2, rho2)
                want = np.einsum('ijkl,l->ijk', F2 - feq2[:, None, None, :], w)
                got = rho2.getAllData()
                tol = 64 * EPS * cond * (S.d + 1) * span * max(1e-300, np.abs(F2).max() + np.abs(feq2).max())
                err = np.abs(got.real - want).max() if not np.isnan(got.real).any() else np.inf
                if not err <= tol:
                    probs.append(('density-differs:perturbed:same-finder-on-a-differently-distributed-grid',
                                  'finder reused on a grid whose radial block starts at %d (first grid: %d) on rank %d: max error %.3g (tol %.3g)' % (int(l2.starts[0]), r0, r, err, tol)))
        # a further finder in the same process for a velocity grid with the same number of points and the same vMin but another
        # vMax (anything remembered per process must be keyed by the whole v space)
        f3, c3, t3 = setupCylindricalGrid(layout='v_parallel', npts=list(npts), comm=comm, eps=0.0, splineDegrees=[3, 3, 3, case['vdeg']], vMin=-6.1, vMax=4.3, **ops.GENERIC)
        eta3 = f3.eta_grid
        dens3 = DensityFinder(6, f3.getSpline(3), eta3, c3)
        S3 = refspline.RefSpace(f3.getSpline(3))
        w3 = np.array([float(x) for x in S3.weights_exact()])
        l3 = f3.getLayout('v_parallel')
        gi3 = sim.global_index_arrays(l3)
        F3 = f3.getAllData() * (1 + 0.3 * np.sin(1.0 + gi3[0] * 1.3 + gi3[1] * 0.7 + gi3[2] * 2.1 + gi3[3] * 0.9))
        f3.getAllData()[:] = F3
        rho.getAllData()[:] = poison
        n_eval += 1
        dens3.getRho(f3, rho)
        want = np.einsum('ijkl,l->ijk', F3, w3)
        tol = 64 * EPS * S3.cond_inf() * (S3.d + 1) * float(eta3[3][-1] - eta3[3][0]) * max(1e-300, np.abs(F3).max())
        err = np.abs(rho.getAllData().real - want).max() if not np.isnan(rho.getAllData().real).any() else np.inf
        if not err <= tol:
            probs.append(('density-differs:full:second-velocity-grid-in-the-same-process', 'finder for v in [-6.1, 4.3] built after one for [-6.1, vMax default] on rank %d: max error %.3g (tol %.3g)' % (r, err, tol)))
        return probs, n_eval, r0
    try:
        res, _ = sim.run_world(grid, fn)
    except Exception as e:  # noqa
        V('exception:' + type(e).__name__, '%s: %s (%s)' % (type(e).__name__, e, tag))
        return {'evals': 1, 'nontrivial': 0, 'violations': list(viols.values()), 'stats': {}, 'sample': None}
    evals = nontriv = 0
    for probs, n_eval, r0 in res:
        evals += n_eval
        if r0 > 0 or case['complex']:
            nontriv += n_eval
        for sig, what in probs:
            V(sig, what + ' (%s)' % tag)
    return {'evals': evals, 'nontrivial': nontriv, 'violations': list(viols.values()), 'stats': {}, 'sample': {'config': tag, 'density_calls': evals}}
