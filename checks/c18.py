"""C18 Checkpoints round-trip exactly and a restarted run continues the original one."""
import itertools

PROPERTY = 'C18'
LEVEL = 'model_checking'
TIMEOUT_S = 1500
RULE = ('(a) round trip: every layout at save time x writer grid x reader grid x dtype through writeH5Dataset -> setupFromFile / loadFromFile '
        '(latest and explicit time), bit-exact comparison with a global-index pattern; (b) selection: every subset (<=3) of the time alphabet '
        '{0,2,10,98,100,99998,999998,1000000} present in a folder, latest and every explicitly requested time, via setupFromFile and '
        'loadFromFile; (c) constants: str(Constants) -> get_constants reproduces all attributes, and all permutations of the keys taking part in '
        'symbolic dependencies of a parameter file give the same constants; (d) restart histories: state = contents of the result folder, '
        'transition = one fullSimulation.main() segment; every composition of the total step count into 1-3 segments for every save interval '
        'and grid; the final checkpoints of the split run must equal those of the unsplit run; non-trivial = reader grid differs from writer '
        'grid, subset with times of different digit counts, permutation that puts a dependent key before its dependency, split histories')
ASSUMPTIONS = ['simh5 models an mpio file by one shared serial HDF5 file with collective open/create/close', 'simmpi', 'JSON key order = file order (json.load keeps it)']

TIMES = [0, 2, 10, 98, 100, 99998, 999998, 1000000]
NPTS = [6, 8, 7, 6]
RT_NPTS = [5, 8, 9, 6]          # round trips: n//p differs between r, v and z, so the block offsets of the three layouts differ on every multi-rank grid
LAYS = ('flux_surface', 'v_parallel', 'poloidal')


def cases(tier, seed):
    out = []
    wg = [(1, 1), (1, 2), (2, 2), (1, 3), (3, 2)] if tier == 'quick' else [(1, 1), (1, 2), (2, 1), (2, 2), (1, 3), (3, 2), (2, 3), (5, 1)]
    rg = [(1, 1), (2, 1), (2, 3)] if tier == 'quick' else [(1, 1), (1, 2), (2, 1), (2, 2), (1, 3), (3, 2), (2, 3)]
    for lay in LAYS:
        for w in wg:
            for dtype in ('float64', 'complex128'):
                if tier == 'quick' and dtype == 'complex128' and w not in ((2, 2), (1, 3)):
                    continue
                out.append({'kind': 'roundtrip', 'layout': lay, 'writer': list(w), 'readers': [list(x) for x in rg], 'dtype': dtype, 'cost': 40})
    subsets = [s for k in (1, 2, 3) for s in itertools.combinations(TIMES, k)]
    chunk = 8
    for i in range(0, len(subsets), chunk):
        out.append({'kind': 'select', 'subsets': [list(s) for s in subsets[i:i + chunk]], 'cost': 30})
    out.append({'kind': 'constants-roundtrip', 'cost': 5})
    nperm = 5 if tier == 'quick' else 8
    firsts = list(range(nperm))
    for f in firsts:
        out.append({'kind': 'constants-perm', 'nkeys': nperm, 'first': f, 'cost': 20 if tier == 'quick' else 400})
    tot = (2, 3, 4) if tier == 'quick' else (2, 3, 4, 5)
    grids = [(1, 1), (1, 2), (2, 2)]
    for s in (1, 2, 3):
        for N in tot:
            comps = [c for k in (1, 2, 3) for c in _compositions(N, k)]
            for g in grids:
                if tier == 'quick' and g == (2, 2) and N > 3:
                    continue
                out.append({'kind': 'restart', 'save': s, 'total': N, 'compositions': comps, 'grid': list(g), 'cost': 60 * N * len(comps) * g[0] * g[1]})
    return out


def _compositions(n, k):
    if k == 1:
        return [[n]]
    out = []
    for first in range(1, n - k + 2):
        for rest in _compositions(n - first, k - 1):
            out.append([first] + rest)
    return out


def _gfield(layout, dtype):
    import numpy as np
    from pgv import sim
    gi = sim.global_index_arrays(layout)
    a = np.sin(1.0 + gi[0] * 1.3 + gi[1] * 0.7 + gi[2] * 2.1 + gi[3] * 0.9) + gi[0] * 1000 + gi[1] * 100 + gi[2] * 10 + gi[3]
    if np.dtype(dtype).kind == 'c':
        a = a + 1j * (0.5 - a)
    return a.astype(dtype)


def _roundtrip(case, V, st):
    import os
    import numpy as np
    from pgv import sim, env
    MPI = sim.setup()
    from pygyro.initialisation.setups import setupCylindricalGrid, setupFromFile
    from pygyro.utilities.savingTools import setupSave
    lay = case['layout']
    dtype = np.dtype(case['dtype'])
    d = env.scratch_dir('c18')
    W = os.path.join(d, 'ck')
    tag = 'layout %s writer %r %s' % (lay, case['writer'], case['dtype'])
    try:
        def wfn(r):
            g, c, t = setupCylindricalGrid(layout=lay, npts=list(RT_NPTS), comm=MPI.COMM_WORLD, dtype=dtype, allocateSaveMemory=True, vMin=-6.1, rMin=0.3, zMin=7.0)
            l = g.getLayout(lay)
            setupSave(c, W)
            g.getAllData()[:] = _gfield(l, dtype) * 0 - 1
            g.writeH5Dataset(W, 0)
            g.getAllData()[:] = _gfield(l, dtype)
            # the layout at save time is reached through save / other layout / restore (as in a predictor-corrector step), not
            # through setLayout
            g.saveGridValues()
            g.setLayout([x for x in LAYS if x != lay][-1])
            g.restoreGridValues()
            g.writeH5Dataset(W, 40)
            return True
        try:
            _, w = sim.run_world(case['writer'], wfn)
            if getattr(w, 'h5_overlaps', None):
                V('overlapping-writes', 'two ranks wrote the same cells of the checkpoint (%s)' % tag)
        except Exception as e:  # noqa
            V('write-exception:' + type(e).__name__, '%s: %s (%s)' % (type(e).__name__, e, tag))
            return
        for rg in case['readers']:
            def rfn(r):
                probs = []
                g, c, t = setupFromFile(W, comm=MPI.COMM_WORLD, dtype=dtype)
                l = g.getLayout(g.currentLayout)
                if g.currentLayout != lay:
                    probs.append('setupFromFile:layout')
                elif t != 40:
                    probs.append('setupFromFile:time')
                elif not np.array_equal(g.getAllData(), _gfield(l, dtype)):
                    probs.append('setupFromFile:data')
                # the restarted run lives on the coordinates of the saved run (domain limits not symmetric, not starting at 0)
                gref, cref, tref = setupCylindricalGrid(layout=lay, npts=list(RT_NPTS), comm=MPI.COMM_WORLD, dtype=dtype, vMin=-6.1, rMin=0.3, zMin=7.0)
                if any(not np.array_equal(np.asarray(a), np.asarray(b)) for a, b in zip(g.eta_grid, gref.eta_grid)):
                    probs.append('setupFromFile:coordinates')
                g3, c3, t3 = setupFromFile(W, comm=MPI.COMM_WORLD, dtype=dtype, timepoint=0)
                if t3 != 0 or not np.array_equal(g3.getAllData(), _gfield(g3.getLayout(g3.currentLayout), dtype) * 0 - 1):
                    probs.append('setupFromFile:requested-time')
                g2, c2, t2 = setupCylindricalGrid(layout=lay, npts=list(RT_NPTS), comm=MPI.COMM_WORLD, dtype=dtype)
                l = g2.getLayout(lay)
                g2.loadFromFile(W)
                if not np.array_equal(g2.getAllData(), _gfield(l, dtype)):
                    probs.append('loadFromFile:latest')
                g2.loadFromFile(W, 0)
                if not np.array_equal(g2.getAllData(), _gfield(l, dtype) * 0 - 1):
                    probs.append('loadFromFile:requested-time-0')
                g2.loadFromFile(W, 40)
                if not np.array_equal(g2.getAllData(), _gfield(l, dtype)):
                    probs.append('loadFromFile:requested-time')
                # the loaded field must be the grid's field from now on: change layout and come back
                g2.loadFromFile(W, 0)
                g2.loadFromFile(W)
                other2 = [x for x in LAYS if x != lay][-1]
                g2.setLayout(other2)
                if not np.array_equal(g2.getAllData(), _gfield(g2.getLayout(other2), dtype)):
                    probs.append('loadFromFile:field-lost-on-layout-change')
                g2.setLayout(lay)
                if not np.array_equal(g2.getAllData(), _gfield(l, dtype)):
                    probs.append('loadFromFile:field-lost-on-layout-change')
                # loading into a grid that came back to its layout through save / other layout / restore
                g5, c5, t5 = setupCylindricalGrid(layout=lay, npts=list(RT_NPTS), comm=MPI.COMM_WORLD, dtype=dtype, allocateSaveMemory=True)
                g5.saveGridValues()
                g5.setLayout(other2)
                g5.restoreGridValues()
                g5.loadFromFile(W, 40)
                if g5.currentLayout != lay or not np.array_equal(g5.getAllData(), _gfield(l, dtype)):
                    probs.append('loadFromFile:after-restore')
                # layout wanted by the caller differs from the stored one
                other = [x for x in LAYS if x != lay][0]
                g4, c4, t4 = setupFromFile(W, comm=MPI.COMM_WORLD, dtype=dtype, layout=other)
                if g4.currentLayout != other or not np.array_equal(g4.getAllData(), _gfield(g4.getLayout(other), dtype)):
                    probs.append('setupFromFile:layout-change')
                return probs
            st['evals'] += 6
            if list(rg) != list(case['writer']):
                st['nontrivial'] += 6
            try:
                res, _ = sim.run_world(rg, rfn)
                for probs in res:
                    for p in probs:
                        V('roundtrip:' + p, '%s (%s reader %r)' % (p, tag, rg))
            except Exception as e:  # noqa
                V('read-exception:' + type(e).__name__, '%s: %s (%s reader %r)' % (type(e).__name__, e, tag, rg))
    finally:
        env.rm(d)


def _select(case, V, st):
    import os
    import shutil
    import numpy as np
    from pgv import sim, env
    MPI = sim.setup()
    from pygyro.initialisation.setups import setupCylindricalGrid, setupFromFile
    from pygyro.utilities.savingTools import setupSave
    d = env.scratch_dir('c18s')
    try:
        pool = os.path.join(d, 'pool')

        def wfn(r):
            g, c, t = setupCylindricalGrid(layout='v_parallel', npts=list(NPTS), comm=MPI.COMM_WORLD)
            setupSave(c, pool)
            for tt in TIMES:
                g.getAllData()[:] = float(tt)
                g.writeH5Dataset(pool, tt)
                g.getAllData()[:] = -(float(tt) + 0.5)          # the other family of files holds something else
                g.writeH5Dataset(pool, tt, 'phi')
        sim.run_world([1, 1], wfn)
        for k, sub in enumerate(case['subsets']):
            F = os.path.join(d, 'f%d' % k)
            os.makedirs(F)
            shutil.copy(os.path.join(pool, 'initParams.json'), F)
            # the files of the latest time are created FIRST and carry the OLDEST modification time: "latest" means the largest
            # time in the name, not the file written or touched last (a checkpoint may be rewritten or copied later)
            for age, tt in enumerate(sorted(sub, reverse=True)):
                for nm in ('grid', 'phi'):
                    dst = shutil.copy(os.path.join(pool, '%s_%06d.h5' % (nm, tt)), F)
                    os.utime(dst, (1.6e9 + 1000 * age, 1.6e9 + 1000 * age))
            digits = len(set(len(str(x)) for x in sub)) > 1
            for rg in ([1, 1], [2, 1]):
                def rfn(r):
                    probs = []
                    g, c, t = setupFromFile(F, comm=MPI.COMM_WORLD)
                    if t != max(sub) or float(g.getAllData().max()) != float(max(sub)) or float(g.getAllData().min()) != float(max(sub)):
                        probs.append('setupFromFile:latest picked t=%r' % (t,))
                    for x in sub:
                        g, c, t = setupFromFile(F, comm=MPI.COMM_WORLD, timepoint=x)
                        if t != x or float(g.getAllData().max()) != float(x):
                            probs.append('setupFromFile:timepoint')
                    g2, c2, t2 = setupCylindricalGrid(layout='v_parallel', npts=list(NPTS), comm=MPI.COMM_WORLD)
                    g2.loadFromFile(F)
                    if float(g2.getAllData().max()) != float(max(sub)):
                        probs.append('loadFromFile:latest')
                    g2.loadFromFile(F, nameConvention='phi')
                    if float(g2.getAllData().max()) != -(float(max(sub)) + 0.5) or float(g2.getAllData().min()) != -(float(max(sub)) + 0.5):
                        probs.append('loadFromFile:latest-phi')
                    for x in sub:
                        g2.loadFromFile(F, x)
                        if float(g2.getAllData().max()) != float(x) or float(g2.getAllData().min()) != float(x):
                            probs.append('loadFromFile:time')
                        g2.loadFromFile(F, x, 'phi')             # a requested time together with a name
                        if float(g2.getAllData().max()) != -(float(x) + 0.5) or float(g2.getAllData().min()) != -(float(x) + 0.5):
                            probs.append('loadFromFile:time-phi')
                    return probs
                st['evals'] += 2 + 3 * len(sub)
                if digits:
                    st['nontrivial'] += 2 + 3 * len(sub)
                try:
                    res, _ = sim.run_world(rg, rfn)
                    for probs in res:
                        for p in probs:
                            V('selection:' + p.split(' picked')[0], '%s with checkpoints %r (reader %r)' % (p, sub, rg))
                except Exception as e:  # noqa
                    V('selection-exception:' + type(e).__name__, '%s: %s (checkpoints %r)' % (type(e).__name__, e, sub))
    finally:
        env.rm(d)


def _attrs(x):
    return {k: getattr(x, k) for k in dir(x) if not callable(getattr(x, k)) and k[0] != '_'}


def _constants(case, V, st):
    import json
    import os
    from pgv import env
    env.setup()
    from pygyro.initialisation.constants import Constants, get_constants
    d = env.scratch_dir('c18c')
    try:
        if case['kind'] == 'constants-roundtrip':
            for kw in ({}, {'npts': [6, 8, 7, 6], 'iotaVal': 0.8}, {'rMin': 0.5, 'rMax': 9.25, 'eps': 1e-3, 'm': 3, 'n': -2, 'dt': 1},
                       {'vMax': 5.5, 'vMin': -4.0, 'zMax': 100.0, 'B0': 2.0},
                       {'eps': 0.0, 'n': 0, 'm': 0, 'kN0': 0.0, 'iotaVal': 0.0, 'zMin': 0.0, 'vMin': 0.0},
                       {'kTi': 0.0, 'kTe': 0.0, 'eps0': 0.0, 'rMin': 0.0}):
                c = Constants()
                for k, v in kw.items():
                    setattr(c, k, v)
                p = os.path.join(d, 'a.json')
                with open(p, 'w') as f:
                    print(c, file=f)
                d2 = get_constants(p)
                A, B = _attrs(c), _attrs(d2)
                st['evals'] += 1
                st['nontrivial'] += 1
                bad = [k for k in A if A[k] != B.get(k)]
                if bad:
                    V('constants-roundtrip', 'str(Constants) -> get_constants changes %r (%r)' % (bad, kw))
            # the saving entry point itself, called for a sequence of different parameter sets on the same folder: the folder must
            # describe the LAST one (serial world; the collective behaviour of setupSave is C06's)
            from pgv import sim
            MPI = sim.setup()
            from pygyro.utilities.savingTools import setupSave
            folder = os.path.join(d, 'run')
            for kw in ({'eps': 1e-3, 'm': 3, 'dt': 1}, {'eps': 0.25, 'm': 5, 'dt': 4, 'npts': [6, 8, 7, 6]}, {}):
                c = Constants()
                for k, v in kw.items():
                    setattr(c, k, v)
                got = setupSave(c, folder, MPI.COMM_WORLD)
                st['evals'] += 1
                st['nontrivial'] += 1
                B = _attrs(get_constants(os.path.join(folder, 'initParams.json')))
                A = _attrs(c)
                bad = [k for k in A if A[k] != B.get(k)]
                if bad or got != folder:
                    V('setupSave-folder-does-not-describe-last-saved-constants', 'setupSave(%r) on a folder that already held parameters: file differs in %r' % (kw, bad))
            return
        base = json.load(open(os.path.join(env.REPO, 'testSetups', 'iota0.json')))
        # every key that an expression refers to gets a NON-default value, otherwise a parser that falls back to the
        # defaults too early cannot be told from a correct one
        base.update({'R0': 100.0, 'vMax': 5.0, 'kTi': 0.3, 'deltaRTi': 1.25, 'CTi': 1.5, 'rMin': 0.5, 'rMax': 9.5})
        p0 = os.path.join(d, 'ref.json')
        with open(p0, 'w') as f:
            json.dump({k: base[k] for k in sorted(base, key=lambda k: isinstance(base[k], str))}, f)    # numbers first, expressions last
        ref = _attrs(get_constants(p0))
        import math
        expect = {'zMax': 100.0 * 2 * math.pi, 'vMin': -5.0, 'kTe': 0.3, 'deltaRTe': 1.25, 'deltaRN0': 2.5, 'deltaR': 4.0 * 2.5 / 1.25, 'CTe': 1.5, 'rp': 5.0}
        for k, v in expect.items():
            if not abs(ref[k] - v) <= 1e-12 * abs(v):
                V('constants-expression-value', 'parameter file with numbers first: %s = %r, expected %r' % (k, ref[k], v))
        # a second parameter file of the same process with the SAME expression texts and OTHER numbers (two runs compared in one
        # interpreter, a restart next to a fresh set-up), in two key orders, and then the first file again
        base2 = dict(base)
        base2.update({'R0': 37.0, 'vMax': 4.0, 'kTi': 0.45, 'deltaRTi': 0.8, 'CTi': 0.9, 'rMin': 1.0, 'rMax': 8.0})
        expect2 = {'zMax': 37.0 * 2 * math.pi, 'vMin': -4.0, 'kTe': 0.45, 'deltaRTe': 0.8, 'deltaRN0': 1.6, 'deltaR': 4.0 * 1.6 / 0.8, 'CTe': 0.9, 'rp': 4.5}
        p2 = os.path.join(d, 'second.json')
        for keyorder in (sorted(base2, key=lambda k: isinstance(base2[k], str)), sorted(base2, key=lambda k: not isinstance(base2[k], str))):
            with open(p2, 'w') as f:
                json.dump({k: base2[k] for k in keyorder}, f)
            st['evals'] += 2
            st['nontrivial'] += 2
            try:
                r2 = _attrs(get_constants(p2))
                bad = [k for k, v in expect2.items() if not abs(r2[k] - v) <= 1e-12 * abs(v)]
                if bad:
                    V('constants-second-file-of-the-process', 'second parameter file (same expressions, other numbers): %r wrong, e.g. %s = %r, expected %r' % (bad, bad[0], r2[bad[0]], expect2[bad[0]]))
                if _attrs(get_constants(p0)) != ref:
                    V('constants-second-file-of-the-process', 'the first parameter file read again after another one gives other constants')
            except Exception as e:  # noqa
                V('constants-second-file-exception:' + type(e).__name__, '%s: %s' % (type(e).__name__, e))
        deps = ['zMax', 'vMin', 'kTe', 'deltaRTe', 'deltaRN0', 'deltaR', 'CTe', 'R0', 'vMax', 'kTi', 'deltaRTi', 'CTi']
        chain = ['deltaR', 'deltaRN0', 'deltaRTe', 'deltaRTi', 'CTe', 'CTi', 'zMax', 'R0'][:case['nkeys']]
        rest = [k for k in base if k not in chain]
        first = chain[case['first']]
        others = [k for k in chain if k != first]
        p = os.path.join(d, 'p.json')
        for perm in itertools.permutations(others):
            order = [first] + list(perm)
            for fileorder in (order + rest, rest + order, rest[:7] + order + rest[7:]):
                with open(p, 'w') as f:
                    json.dump({k: base[k] for k in fileorder}, f)
                st['evals'] += 1
                # json parsing pops from the end: a dependent key is reached before its dependency in about half the orders
                st['nontrivial'] += 1
                try:
                    r = _attrs(get_constants(p))
                    if r != ref:
                        V('constants-order-dependent', 'key order %r gives different constants: %r' % (fileorder, [k for k in ref if ref[k] != r.get(k)]))
                except Exception as e:  # noqa
                    V('constants-order-exception:' + type(e).__name__, '%s: %s for key order %r' % (type(e).__name__, e, fileorder))
    finally:
        env.rm(d)


def _restart(case, V, st):
    import os
    import numpy as np
    from pgv import sim, env
    sim.setup()
    d = env.scratch_dir('c18r')
    s = case['save']
    N = case['total']
    grid = case['grid']
    try:
        sim.write_constants(os.path.join(d, 'c.json'), npts=NPTS, dt=2, iotaVal=0.0, eps=1e-3, m=2, n=1, vMin=-6.1)          # velocity domain not symmetric about 0
        results = {}
        for comp in case['compositions']:
            folder = 'R' + '_'.join(map(str, comp))
            done = 0
            err = None
            for seg in comp:
                done += seg
                try:
                    sim.run_driver(grid, d, 2 * done, s, folder)
                except Exception as e:  # noqa
                    err = '%s: %s (segment ending at step %d)' % (type(e).__name__, e, done)
                    V('restart-exception:' + type(e).__name__, 'history %r save=%d grid %r: %s' % (comp, s, grid, err))
                    break
            st['evals'] += 1
            st['transitions'] += len(comp)
            if len(comp) > 1:
                st['nontrivial'] += 1
            if err is None:
                results[tuple(comp)] = sim.read_checkpoints(os.path.join(d, folder))
        ref = results.get((N,))
        if ref is None:
            return
        last = ['grid_%06d.h5' % (2 * N), 'phi_%06d.h5' % (2 * N)]
        for nm in last:
            if nm not in ref:
                V('restart:final-checkpoint-missing', 'unsplit run of %d steps save=%d grid %r did not write %s (has %r)' % (N, s, grid, nm, sorted(ref)))
        for comp, got in results.items():
            if comp == (N,):
                continue
            for nm in last:
                if nm not in got:
                    V('restart:final-checkpoint-missing', 'history %r save=%d grid %r did not write %s (has %r)' % (list(comp), s, grid, nm, sorted(got)))
            for nm in got:
                if nm in ref:
                    e = sim.maxrel(got[nm][0], ref[nm][0]) if got[nm][0].shape == ref[nm][0].shape else float('inf')
                    if got[nm][1] != ref[nm][1]:
                        V('restart:layout-differs', 'history %r save=%d grid %r: %s stored in another layout' % (list(comp), s, grid, nm))
                    elif not e <= 1e-13:
                        V('restart:state-differs:' + nm.split('_')[0], 'history %r save=%d grid %r: %s differs from the unsplit run by %.3g relative' % (list(comp), s, grid, nm, e))
    finally:
        env.rm(d)


def run_case(case):
    viols = {}
    st = {'evals': 0, 'nontrivial': 0, 'transitions': 0}

    def V(sig, what):
        sig = sig.replace(' ', '-')
        viols.setdefault(sig, {'sig': sig, 'what': what, 'detail': {}})
    k = case['kind']
    if k == 'roundtrip':
        _roundtrip(case, V, st)
    elif k == 'select':
        _select(case, V, st)
    elif k.startswith('constants'):
        _constants(case, V, st)
    else:
        _restart(case, V, st)
    return {'evals': st['evals'], 'nontrivial': st['nontrivial'], 'violations': list(viols.values()),
            'stats': {'states': st['evals'], 'transitions': max(st['transitions'], st['evals'])}, 'sample': {'kind': k, 'evals': st['evals']}}
