"""C05 Simulation results do not depend on the process decomposition.

(1) initial f vs the analytic formula at global coordinates, (2) every grid-level operator
against the slice-level operator applied with the parameters of the slice's *global*
indices (computed in-process from serial operator objects) and against the serial world,
(3) complete driver steps (real fullSimulation.main()) against the serial run, for every
admissible process grid; schedules of a 2x2 run explored with a deviation bound.
"""
import itertools

PROPERTY = 'C05'
LEVEL = 'exploration'
TIMEOUT_S = 1500
RULE = ('configurations = (npts, start layout, rotational transform: 0 / 0.8 / r-dependent profile (monotone; flat with a local bump), perturbation mode (m,n)) x every admissible '
        'process grid up to the rank bound; per grid one simulated world runs: setupCylindricalGrid (initial f vs analytic formula at global '
        'coordinates), then flux-surface / v-parallel (+ parallel gradient, keep-gradient variant) / poloidal advection, density, '
        'quasi-neutrality solve on a globally defined perturbed f and potential; oracle (ii) wiring: every local slice equals the slice-level '
        'operator of a serial operator object called with the slice\'s global indices; oracle (i) differential: assembled global fields equal '
        'those of the serial world (1e-13 relative); kind=driver: fullSimulation.main() for 1-2 steps, final checkpoints equal the serial run; '
        'kind=sched: all schedules with <= bound deviations of a 2x2 pipeline; an evaluation is one (configuration, grid, stage); '
        'non-trivial = grid with more than one process')
ASSUMPTIONS = ['slice-level operators are decided by C10-C13, C16 (here they serve as reference for the wiring)',
               'simmpi / simh5 environment models', 'identical per-slice arithmetic on every decomposition, so 1e-13 relative is generous']

CONFIGS = [
    {'npts': [6, 8, 7, 6], 'start': 'flux_surface', 'iota': 0.0, 'mn': [2, 1]},
    {'npts': [6, 8, 7, 6], 'start': 'v_parallel', 'iota': 'bump', 'mn': [3, -2], 'R0': 3.0, 'chi': 1},     # iota: flat 0.8 with a local shear bump at mid radius (equal at both ends of some radial blocks, not inside);     # chi=1: the m=0 mode has its own stiffness matrix wherever the theta modes are split; tight torus: several z cells per step, b_z strongly r dependent
    {'npts': [5, 8, 9, 6], 'start': 'poloidal', 'iota': 'profile', 'mn': [2, 1], 'deg': [3, 3, 4, 2]},     # z and v with their own spline degree (Spline2D needs theta and r both cubic-uniform or both not)
    {'npts': [7, 5, 8, 7], 'start': 'v_parallel', 'iota': 0.8, 'mn': [2, 1]},
]
TOL = 1e-13
GEN = {'B0': 1.3, 'kTe': 0.31, 'deltaRTe': 1.6, 'CTe': 1.25, 'CTi': 1.1, 'deltaRN0': 3.1, 'deltaR': 7.0}      # ties between constants broken (see pgv.ops.GENERIC)


def _grids(npts, maxranks):
    m1 = min(npts[0], npts[3])
    m2 = min(npts[2], npts[3])
    return [[a, b] for a in range(1, m1 + 1) for b in range(1, m2 + 1) if a * b <= maxranks]


def cases(tier, seed):
    out = []
    maxr = 12 if tier == 'quick' else 49
    cfgs = CONFIGS[:3] if tier == 'quick' else CONFIGS
    for ci, cfg in enumerate(cfgs):
        for g in _grids(cfg['npts'], maxr):
            if g == [1, 1]:
                continue
            out.append({'kind': 'pipeline', 'cfg': cfg, 'grid': g, 'cost': 10 * g[0] * g[1]})
    # the other entry point: setupFromFile on a folder without checkpoint (fresh initialisation), initial condition only
    for start in ('flux_surface', 'v_parallel', 'poloidal'):
        for g in ([1, 2], [2, 2], [3, 2]) if tier == 'quick' else _grids([6, 8, 7, 6], 12):
            if g != [1, 1]:
                out.append({'kind': 'pipeline', 'cfg': {'npts': [6, 8, 7, 6], 'start': start, 'iota': 0.8, 'mn': [3, -2], 'entry': 'file'}, 'grid': g, 'stages': 'init',
                            'cost': 5 * g[0] * g[1]})
    dcfgs = [{'npts': [6, 8, 7, 6], 'iota': 0.0, 'steps': 1, 'save': 5}, {'npts': [6, 8, 7, 6], 'iota': 0.8, 'steps': 2, 'save': 1, 'deg': [3, 3, 4, 2]}]
    for cfg in dcfgs:
        gl = _grids(cfg['npts'], 6 if tier == 'quick' else 36)
        if tier == 'quick':
            gl = [g for g in gl if g in ([1, 2], [2, 1], [2, 2], [3, 2], [1, 3], [2, 3], [1, 6], [6, 1])]
        for g in gl:
            if g != [1, 1]:
                out.append({'kind': 'driver', 'cfg': cfg, 'grid': g, 'cost': 30 * g[0] * g[1] * cfg['steps']})
    # plot-only rank: the compute ranks must hold the same field as without it, whichever rank is the drawing rank
    for size in ((3, 5) if tier == 'quick' else (2, 3, 4, 5, 7)):
        for draw in sorted(set([0, size // 2, size - 1])):
            for start in ('flux_surface', 'v_parallel', 'poloidal'):
                out.append({'kind': 'plotrank', 'cfg': {'npts': [6, 8, 7, 6], 'start': start, 'mn': [2, 1]}, 'grid': [size, 1], 'size': size, 'draw': draw, 'cost': 20 * size})
    # schedules: partitioned over several cases by the position of the first deviation
    if tier == 'quick':
        plans = [([2, 2], 1, 4)]
    else:
        plans = [([2, 2], 1, 4), ([2, 3], 1, 8), ([1, 2], 2, 8), ([2, 1], 2, 8)]
    for grid, bound, nparts in plans:
        for part in range(nparts):
            out.append({'kind': 'sched', 'cfg': CONFIGS[1], 'grid': grid, 'bound': bound, 'stages': 'qn', 'part': part, 'nparts': nparts, 'cost': 2000, 'timeout': 1400})
    return out


# ------------------------------------------------------------------------- physics reference
def _feq(c, r, v):
    import numpy as np
    n0 = c.CN0 * np.exp(-c.kN0 * c.deltaRN0 * np.tanh((r - c.rp) / c.deltaRN0))
    Ti = c.CTi * np.exp(-c.kTi * c.deltaRTi * np.tanh((r - c.rp) / c.deltaRTi))
    return n0 * np.exp(-0.5 * v * v / Ti) / np.sqrt(2 * np.pi * Ti)


def _finit(c, r, q, z, v):
    import numpy as np
    return _feq(c, r, v) * (1 + c.eps * np.exp(-(r - c.rp) ** 2 / c.deltaR) * np.cos(c.m * q + c.n * z / c.R0))


def _phi_global(npts):
    import numpy as np
    I = np.indices(npts[:3]).astype(float)
    return 0.3 * np.sin(0.7 + 1.1 * I[0] + 0.9 * I[1] * 2 * np.pi / npts[1]) * np.cos(0.4 + 2 * np.pi * I[2] / npts[2]) + 0.05 * I[0]


def _pipeline(cfg, nprocs, stages='all'):
    """returns fn(rank) for sim.run_world"""
    import numpy as np
    from pgv import sim
    MPI = sim.setup()
    from pygyro.initialisation.setups import setupCylindricalGrid, setupFromFile
    from pygyro.model.layout import LayoutSwapper, getLayoutHandler, Layout
    from pygyro.model.grid import Grid
    from pygyro.poisson.poisson_solver import DensityFinder, QuasiNeutralitySolver
    from pygyro.advection.advection import FluxSurfaceAdvection, VParallelAdvection, PoloidalAdvection, ParallelGradient
    from pygyro.splines.splines import Spline2D
    from pygyro.splines.spline_interpolators import SplineInterpolator1D, SplineInterpolator2D
    npts = cfg['npts']
    dt = 2.0
    PHI = _phi_global(npts)

    def close(a, b):
        return a.shape == b.shape and sim.maxrel(a, b) <= TOL

    def fn(r):
        comm = MPI.COMM_WORLD
        out = {}
        viol = []
        iv = 0.8 if cfg['iota'] in ('profile', 'bump') else cfg['iota']
        if cfg.get('entry') == 'file':
            f, c, t = setupFromFile(cfg['_dir'], comm=comm, layout=cfg['start'], allocateSaveMemory=True)
        else:
            f, c, t = setupCylindricalGrid(layout=cfg['start'], npts=list(npts), comm=comm, allocateSaveMemory=True,
                                           iotaVal=iv, eps=0.1, m=cfg['mn'][0], n=cfg['mn'][1], vMin=-6.1, splineDegrees=list(cfg.get('deg', [3, 3, 3, 3])), **dict(GEN, **({'R0': cfg['R0'], 'zMax': 2 * 3.141592653589793 * cfg['R0']} if 'R0' in cfg else {})))
        if cfg['iota'] == 'profile':
            c.iota = lambda rr=None: 0.8 * (1 + 0.05 * np.asarray(rr, dtype=float))
        if cfg['iota'] == 'bump':
            rmid, rw = 0.5 * (c.rMin + c.rMax), 0.2 * (c.rMax - c.rMin)
            c.iota = lambda rr=None: 0.8 * (1 + 0.3 * np.maximum(0.0, 1 - ((np.asarray(rr, dtype=float) - rmid) / rw) ** 2))
        eta = f.eta_grid
        # ---- stage 1: initial condition against the analytic formula at global coordinates
        l = f.getLayout(f.currentLayout)
        gi = sim.global_index_arrays(l)
        want = _finit(c, eta[0][gi[0]], eta[1][gi[1]], eta[2][gi[2]], eta[3][gi[3]])
        if not close(f.getAllData(), want):
            viol.append('init:%s' % cfg['start'])
        out['f0'] = sim.block_of(f)
        if stages == 'init':
            return out, viol
        if f.currentLayout != 'flux_surface':
            f.setLayout('flux_surface')
        l = f.getLayout('flux_surface')
        gi = sim.global_index_arrays(l)
        f.getAllData()[:] *= 1 + 0.3 * np.sin(1.0 + gi[0] * 1.3 + gi[1] * 0.7 + gi[2] * 2.1 + gi[3] * 0.9)
        # ---- objects as in the driver
        spl = [f.getSpline(k) for k in range(4)]
        nprocs2 = f.getLayout(f.currentLayout).nprocs[:2]
        lp = {'v_parallel_2d': [0, 2, 1], 'mode_solve': [1, 2, 0]}
        lv = {'v_parallel_1d': [0, 2, 1]}
        lpol = {'poloidal': [2, 1, 0]}
        rphi = LayoutSwapper(comm, [lp, lv, lpol], [nprocs2, nprocs2[0], nprocs2[1]], eta[:3], 'mode_solve')
        rrho = getLayoutHandler(comm, lp, nprocs2, eta[:3])
        phi = Grid(eta[:3], f.getSpline(slice(0, 3)), rphi, 'mode_solve', comm, dtype=np.complex128)
        rho = Grid(eta[:3], f.getSpline(slice(0, 3)), rrho, 'v_parallel_2d', comm, dtype=np.complex128)
        lm = phi.getLayout('mode_solve')
        phi.getAllData()[:] = np.transpose(PHI, lm.dims_order)[tuple(slice(int(a), int(b)) for a, b in zip(lm.starts, lm.ends))]
        if stages in ('all', 'adv'):
            fluxAdv = FluxSurfaceAdvection(eta, [spl[1], spl[2]], f.getLayout('flux_surface'), dt, c)
            vParAdv = VParallelAdvection(eta, spl[3], c)
            polAdv = PoloidalAdvection(eta, [spl[1], spl[0]], c)
            parGrad = ParallelGradient(spl[1], eta, rphi.getLayout('v_parallel_1d'), c)
            parGradVals = np.empty([f.getLayout('v_parallel').shape[0], npts[2], npts[1]])
            # serial operator objects (reference for the wiring)
            LS = Layout('flux_surface', [1, 1], [0, 3, 1, 2], eta, [0, 0])
            fluxS = FluxSurfaceAdvection(eta, [spl[1], spl[2]], LS, dt, c)
            vParS = VParallelAdvection(eta, spl[3], c)
            polS = PoloidalAdvection(eta, [spl[1], spl[0]], c)
            parGradS = ParallelGradient(spl[1], eta, Layout('v_parallel_1d', [1], [0, 2, 1], eta[:3], [0]), c)
            # ---- flux-surface advection
            before = f.getAllData().copy()
            fluxAdv.gridStep(f)
            st, _ = l.starts, l.ends
            ok = True
            for i in range(before.shape[0]):
                for j in range(before.shape[1]):
                    e = before[i, j].copy()
                    fluxS.step(e, int(st[1]) + j, int(st[0]) + i)
                    ok = ok and close(f.getAllData()[i, j], e)
            if not ok:
                viol.append('wiring:flux')
            out['flux'] = sim.block_of(f)
            # ---- v-parallel advection with the parallel gradient of phi
            f.setLayout('v_parallel')
            phi.setLayout('v_parallel_1d')
            lvp = f.getLayout('v_parallel')
            before = f.getAllData().copy()
            vParAdv.gridStep(f, phi, parGrad, parGradVals, dt)
            okg = okv = True
            ders = {}
            for i in range(before.shape[0]):
                I = int(lvp.starts[0]) + i
                plane = np.ascontiguousarray(PHI[I].T)          # (z, theta)
                der = np.empty_like(plane)
                parGradS.parallel_gradient(plane, I, der)
                ders[i] = der
                okg = okg and close(parGradVals[i], der)
                for j in range(before.shape[1]):
                    J = int(lvp.starts[1]) + j
                    for k in range(before.shape[2]):
                        e = before[i, j, k].copy()
                        vParS.step(e, dt, der[J, k], eta[0][I])
                        okv = okv and close(f.getAllData()[i, j, k], e)
            if not okg:
                viol.append('wiring:parallel-gradient')
            if not okv:
                viol.append('wiring:vpar')
            out['vpar'] = sim.block_of(f)
            before = f.getAllData().copy()
            vParAdv.gridStepKeepGradient(f, parGradVals, 0.5 * dt)
            okv = True
            for i in range(before.shape[0]):
                I = int(lvp.starts[0]) + i
                for j in range(before.shape[1]):
                    J = int(lvp.starts[1]) + j
                    for k in range(before.shape[2]):
                        e = before[i, j, k].copy()
                        vParS.step(e, 0.5 * dt, ders[i][J, k], eta[0][I])
                        okv = okv and close(f.getAllData()[i, j, k], e)
            if not okv:
                viol.append('wiring:vpar-keep-gradient')
            out['vpar2'] = sim.block_of(f)
            # ---- poloidal advection
            f.setLayout('poloidal')
            phi.setLayout('poloidal')
            lpo = f.getLayout('poloidal')
            before = f.getAllData().copy()
            polAdv.gridStep(f, phi, dt)
            okp = True
            itp2 = SplineInterpolator2D(spl[1], spl[0])
            for j in range(before.shape[1]):
                J = int(lpo.starts[1]) + j
                sp = Spline2D(spl[1], spl[0])
                itp2.compute_interpolant(np.ascontiguousarray(PHI[:, :, J].T), sp)   # (theta, r)
                for i in range(before.shape[0]):
                    v = eta[3][int(lpo.starts[0]) + i]
                    e = before[i, j].copy()
                    polS.step(e, dt, sp, v)
                    okp = okp and close(f.getAllData()[i, j], e)
            if not okp:
                viol.append('wiring:poloidal')
            out['pol'] = sim.block_of(f)
            # the same potential splines reused for a further step (gridStep_SplinesUnchanged)
            before = f.getAllData().copy()
            polAdv.gridStep_SplinesUnchanged(f, -0.3 * dt)
            okp = True
            for j in range(before.shape[1]):
                J = int(lpo.starts[1]) + j
                sp = Spline2D(spl[1], spl[0])
                itp2.compute_interpolant(np.ascontiguousarray(PHI[:, :, J].T), sp)
                for i in range(before.shape[0]):
                    v = eta[3][int(lpo.starts[0]) + i]
                    e = before[i, j].copy()
                    polS.step(e, -0.3 * dt, sp, v)
                    okp = okp and close(f.getAllData()[i, j], e)
            if not okp:
                viol.append('wiring:poloidal-splines-unchanged')
            out['pol2'] = sim.block_of(f)
            f.setLayout('v_parallel')
            phi.setLayout('mode_solve')
        else:
            f.setLayout('v_parallel')
        # ---- density
        lvp = f.getLayout('v_parallel')
        density = DensityFinder(6, spl[3], eta, c)
        w = SplineInterpolator1D(spl[3]).get_quadrature_coefficients()
        density.getPerturbedRho(f, rho)
        rI = np.arange(int(lvp.starts[0]), int(lvp.ends[0]))
        feq = _feq(c, eta[0][rI][:, None], eta[3][None, :])
        want = np.einsum('ijkl,l->ijk', f.getAllData() - feq[:, None, None, :], w)
        if not (sim.maxrel(rho.getAllData().real, want) <= 1e-12 and np.abs(rho.getAllData().imag).max() == 0):
            viol.append('wiring:perturbed-density')
        out['rho'] = sim.block_of(rho)
        density.getRho(f, rho)
        want = np.einsum('ijkl,l->ijk', f.getAllData(), w)
        if not sim.maxrel(rho.getAllData().real, want) <= 1e-12:
            viol.append('wiring:density')
        density.getPerturbedRho(f, rho)
        # ---- quasi-neutrality pipeline
        qn = QuasiNeutralitySolver(eta[:3], 7, spl[0], c, chi=cfg.get('chi', 0))
        qn.getModes(rho)
        rho.setLayout('mode_solve')
        if phi.currentLayout != 'mode_solve':
            phi.setLayout('mode_solve')
        qn.solveEquation(phi, rho)
        out['phihat'] = sim.block_of(phi)
        phi.setLayout('v_parallel_2d')
        rho.setLayout('v_parallel_2d')
        qn.findPotential(phi)
        out['phi'] = sim.block_of(phi)
        return out, viol
    return fn


_cache = {}


def _run_pipeline(cfg, grid, stages='all', chooser=None):
    from pgv import sim, env
    import os
    d = None
    if cfg.get('entry') == 'file':
        d = env.scratch_dir('c05file')
        iv = 0.8 if cfg['iota'] in ('profile', 'bump') else cfg['iota']
        sim.write_constants(os.path.join(d, 'initParams.json'), npts=list(cfg['npts']), iotaVal=iv, eps=0.1, m=cfg['mn'][0], n=cfg['mn'][1], vMin=-6.1, **GEN)
        cfg = dict(cfg, _dir=d)
    try:
        res, w = sim.run_world(grid, _pipeline(cfg, grid, stages), chooser=chooser)
    finally:
        if d is not None:
            env.rm(d)
    npts = cfg['npts']
    fields = {}
    viol = []
    for k in res[0][0]:
        shape = npts if res[0][0][k][2].ndim == 4 else npts[:3]
        A, full = sim.assemble([r[0][k] for r in res], shape)
        if not full:
            viol.append('incomplete-cover:' + k)
        fields[k] = A
    for rk, (_, v) in enumerate(res):
        for x in v:
            viol.append(x)
    return fields, viol, w


def _serial(cfg, stages='all'):
    import json
    key = json.dumps(cfg, sort_keys=True) + stages
    if key not in _cache:
        _cache[key] = _run_pipeline(cfg, [1, 1], stages)[:2]
    return _cache[key]


def _driver(cfg, grid, folder):
    """one fullSimulation.main() run in a fresh scratch dir; returns final grid/phi arrays"""
    import os
    import glob
    import h5py
    from pgv import sim, env
    sim.setup()
    import fullSimulation
    d = env.scratch_dir('c05')
    try:
        sim.write_constants(os.path.join(d, 'c.json'), npts=cfg['npts'], dt=2, iotaVal=cfg['iota'], eps=1e-2, m=2, n=1, vMin=-6.1, splineDegrees=list(cfg.get('deg', [3, 3, 3, 3])), **dict(GEN, **({'R0': cfg['R0'], 'zMax': 2 * 3.141592653589793 * cfg['R0']} if 'R0' in cfg else {})))
        tend = 2 * cfg['steps']

        def fn(r):
            fullSimulation.main()
        sim.run_world(grid, fn, cwd=d, argv=['fullSimulation.py', str(tend), '100000', '-c', 'c.json', '-f', folder, '-s', str(cfg['save'])])
        out = {}
        for nm in ('grid', 'phi'):
            fs = sorted(glob.glob(os.path.join(d, folder, nm + '_*.h5')))
            for fpath in fs:
                with h5py.File(fpath, 'r') as h:
                    out[os.path.basename(fpath)] = h['dset'][...]
        return out
    finally:
        env.rm(d)


def run_case(case):
    import json
    import numpy as np
    from pgv import sim, explore
    cfg = case['cfg']
    grid = case['grid']
    seen = {}

    def V(sig, what):
        seen.setdefault(sig, {'sig': sig, 'what': what, 'detail': {}})
    tag = 'cfg %s grid %r' % (json.dumps(cfg, sort_keys=True), grid)
    if case['kind'] == 'pipeline':
        stages = case.get('stages', 'all')
        ref, rviol = _serial(cfg, stages)
        for x in rviol:
            V('serial:' + x, 'serial world: %s (%s)' % (x, tag))
        try:
            fields, viol, _ = _run_pipeline(cfg, grid, stages)
        except Exception as e:  # noqa
            V('pipeline-exception:' + type(e).__name__, '%s: %s (%s)' % (type(e).__name__, e, tag))
            return {'evals': 1, 'nontrivial': 1, 'violations': list(seen.values()), 'stats': {}, 'sample': None}
        for x in sorted(set(viol)):
            V(x, '%s (%s)' % (x, tag))
        worst = 0.0
        for k in ref:
            e = sim.maxrel(fields[k], ref[k])
            worst = max(worst, e)
            if not e <= TOL:
                V('differs-from-serial:' + k, 'stage %s differs from the serial run by %.3g relative (%s)' % (k, e, tag))
        n = len(ref)
        return {'evals': n, 'nontrivial': n, 'violations': list(seen.values()), 'stats': {'max_rel_diff_vs_serial': worst, 'worlds': 1},
                'sample': {'grid': grid, 'stages': sorted(ref), 'max_rel_diff_vs_serial': worst}}
    if case['kind'] == 'plotrank':
        import io
        import sys
        from pgv import simmpi
        MPI = sim.setup()
        from pygyro.initialisation.setups import setupCylindricalGrid
        size, draw = case['size'], case['draw']
        npts = cfg['npts']

        def fn(r):
            comm = MPI.COMM_WORLD
            g, c, t = setupCylindricalGrid(layout=cfg['start'], npts=list(npts), comm=comm, plotThread=True, drawRank=draw, eps=0.1, m=cfg['mn'][0], n=cfg['mn'][1], iotaVal=0.0, vMin=-6.1, **GEN)
            out = {}
            bad = []
            if r != draw:
                l = g.getLayout(g.currentLayout)
                gi = sim.global_index_arrays(l)
                eta = g.eta_grid
                want = _finit(c, eta[0][gi[0]], eta[1][gi[1]], eta[2][gi[2]], eta[3][gi[3]])
                if not (g.getAllData().shape == want.shape and sim.maxrel(g.getAllData(), want) <= TOL):
                    bad.append('init-with-plot-rank')
            elif g.getAllData().size != 0:
                bad.append('plot-rank-owns-data')
            for lname in ('v_parallel', 'poloidal', 'flux_surface'):
                g.setLayout(lname)
                if r != draw:
                    out[lname] = sim.block_of(g)
                mn, mx = g.getMin(draw), g.getMax(draw)
                if r == draw:
                    out['mm' + lname] = (mn, mx)
            return out, bad
        old = sys.stdout
        sys.stdout = io.StringIO()
        try:
            res = simmpi.World(size).run(fn)
        except Exception as e:  # noqa
            V('plotrank-exception:' + type(e).__name__, '%s: %s (%s size %d draw %d)' % (type(e).__name__, e, tag, size, draw))
            return {'evals': 1, 'nontrivial': 1, 'violations': list(seen.values()), 'stats': {}, 'sample': None}
        finally:
            sys.stdout = old
        I = np.indices(npts)
        from pygyro.initialisation.constants import Constants
        c = Constants()
        c.npts = list(npts)
        c.eps, c.m, c.n = 0.1, cfg['mn'][0], cfg['mn'][1]
        for rk, (o, bad) in enumerate(res):
            for b in bad:
                V(b, '%s on rank %d (world %d, drawing rank %d, start %s)' % (b, rk, size, draw, cfg['start']))
        for lname in ('v_parallel', 'poloidal', 'flux_surface'):
            parts = [o[lname] for rk, (o, bad) in enumerate(res) if rk != draw]
            A, full = sim.assemble(parts, npts)
            ref = _serial({'npts': npts, 'start': cfg['start'], 'iota': 0.0, 'mn': cfg['mn']}, 'init')[0]['f0']
            if not full or not sim.maxrel(A, ref) <= TOL:
                V('plotrank-field-differs', 'layout %s: field assembled from the compute ranks differs from the serial initial field (world %d, drawing rank %d, start %s)' % (lname, size, draw, cfg['start']))
            mn, mx = res[draw][0]['mm' + lname]
            if mn != ref.min() or mx != ref.max():
                V('plotrank-minmax-differs', 'layout %s: drawing rank sees min/max (%r,%r), global (%r,%r) (world %d, drawing rank %d)' % (lname, mn, mx, ref.min(), ref.max(), size, draw))
        return {'evals': 7, 'nontrivial': 7, 'violations': list(seen.values()), 'stats': {'plotrank_worlds': 1}, 'sample': {'world': size, 'drawing_rank': draw, 'start': cfg['start']}}
    if case['kind'] == 'driver':
        key = 'drv' + json.dumps(cfg, sort_keys=True)
        if key not in _cache:
            _cache[key] = _driver(cfg, [1, 1], 'S')
        ref = _cache[key]
        try:
            got = _driver(cfg, grid, 'P')
        except Exception as e:  # noqa
            V('driver-exception:' + type(e).__name__, '%s: %s (%s)' % (type(e).__name__, e, tag))
            return {'evals': 1, 'nontrivial': 1, 'violations': list(seen.values()), 'stats': {}, 'sample': None}
        if sorted(got) != sorted(ref):
            V('driver-different-files', 'files %r vs serial %r (%s)' % (sorted(got), sorted(ref), tag))
        worst = 0.0
        for k in ref:
            if k in got:
                e = sim.maxrel(got[k], ref[k])
                worst = max(worst, e)
                if not e <= TOL:
                    V('driver-differs-from-serial:' + k.split('_')[0], '%s differs from the serial run by %.3g relative (%s)' % (k, e, tag))
        return {'evals': len(ref), 'nontrivial': len(ref), 'violations': list(seen.values()), 'stats': {'max_rel_diff_vs_serial': worst, 'driver_worlds': 1},
                'sample': {'grid': grid, 'files': sorted(ref), 'max_rel_diff_vs_serial': worst}}
    # schedules
    ref, _ = _serial(cfg, case['stages'])
    outcomes = set()
    traces = set()

    def run(ch):
        fields, viol, w = _run_pipeline(cfg, grid, case['stages'], chooser=explore.world_chooser(ch))
        worst = max(sim.maxrel(fields[k], ref[k]) for k in ref)
        traces.add(hash(tuple(tuple(t) for t in w.trace)))
        return (tuple(sorted(set(viol))), worst <= TOL)

    def on_exec(choices, obs, points):
        outcomes.add(obs)
        if obs[0] or not obs[1]:
            V('schedule-dependent-result', 'schedule %r gives %r (%s)' % (choices, obs, tag))
        return None
    roots = explore.roots_for_part(run, case['part'], case['nparts'])
    traces.clear()
    st = explore.explore(run, bound=case['bound'], on_exec=on_exec, roots=roots)
    if len(traces) > 1:
        V('schedule-dependent-trace', '%d distinct per-rank collective traces over %d schedules (%s)' % (len(traces), st['executions'], tag))
    return {'evals': st['executions'], 'nontrivial': st['executions'], 'violations': list(seen.values()),
            'stats': {'schedules': st['executions'], 'max_sched_points': st['points_max'], 'distinct_outcomes': len(outcomes)},
            'sample': {'grid': grid, 'bound': case['bound'], 'schedules': st['executions'], 'choice_points': st['points_max']}}
