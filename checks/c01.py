"""C01 Layout transposes preserve the global field.

For every enumerated (array rank, global shape, process grid, layout set, dtype, buffer)
a simulated MPI world runs the real LayoutHandler.transpose on every rank for every ordered
(source, dest) pair and compares with slices of a known global array.
"""
import itertools

PROPERTY = 'C01'
LEVEL = 'exploration'
TIMEOUT_S = 900
RULE = ('cases = (array rank d, global shape, process grid, layout-set family, payload dtype, buf given/not); inside a case '
        'every ordered (source,dest) pair incl. source==dest is executed on every simulated rank with arrays of exactly '
        'bufferSize whose dead parts are poisoned; oracle = exact equality with the slice of the global array 1+ravel(g) '
        '(and bit-identical source when buf is given); every pair is requested twice on the same handler, the second time with a field that is exactly zero on half of every axis; an evaluation is one (case, pair); non-trivial = the pair needs '
        'communication (a distributed position with >1 process changes its dimension) and some distributed extent is not '
        'divisible by its process count; sets the constructor rejects ("could not be connected") are counted separately')
ASSUMPTIONS = ['simmpi Alltoall / Create_cart / Sub semantics', 'rank-local code is atomic between MPI calls',
               'data movement is meant to be value independent: one injective global pattern per dtype plus one pattern with exactly-zero bands (a value-dependent shortcut would have to key on something)']

PHYS = {'flux_surface': [0, 3, 1, 2], 'v_parallel': [0, 2, 1, 3], 'poloidal': [3, 2, 1, 0]}


def _grids(tier):
    one = [[1], [2], [3]] if tier == 'quick' else [[1], [2], [3], [4], [5]]
    rng = (1, 2, 3) if tier == 'quick' else (1, 2, 3, 4)
    two = [[a, b] for a in rng for b in rng if a * b <= 16]
    three = [[1, 2, 2], [2, 1, 2], [2, 2, 1], [2, 2, 2], [1, 1, 2], [1, 3, 2]] + ([[2, 1, 3], [3, 2, 1], [1, 2, 1], [2, 3, 2]] if tier == 'thorough' else [])
    return one + two + three


def _needs(layouts, nprocs):
    """minimum extent of every dimension so that each distributed block is non-empty"""
    d = len(next(iter(layouts.values())))
    need = [1] * d
    for order in layouts.values():
        for pos, n in enumerate(nprocs):
            need[order[pos]] = max(need[order[pos]], n)
    return need


def _families(d, tier):
    """yield (family name, layouts dict)"""
    from pgv.lay import perms, name_of
    P = perms(d)
    fams = []
    if d <= 3 or tier == 'thorough':
        fams.append(('all', {name_of(p): list(p) for p in P}))
    if d == 3:
        for k in (2, 3):
            for sub in itertools.combinations(P, k):
                fams.append(('sub%d' % k, {name_of(p): list(p) for p in sub}))
    if d == 4:
        fams.append(('phys', dict(PHYS)))
        # physics triple with one layout replaced by another ordering
        others = [p for p in P if list(p) not in PHYS.values()]
        repl = others if tier == 'thorough' else others[::3]
        for name in PHYS:
            for p in repl:
                L = dict(PHYS)
                L[name] = list(p)
                fams.append(('phys1', L))
        # chains forcing routes of 2, 3 and 4 steps: consecutive layouts differ by one swap
        chain = [[0, 1, 2, 3], [2, 1, 0, 3], [2, 3, 0, 1], [0, 3, 2, 1], [1, 3, 2, 0]]
        for k in (3, 4, 5):
            fams.append(('chain%d' % (k - 1), {name_of(p): list(p) for p in chain[:k]}))
        chain2 = [[0, 1, 2, 3], [0, 2, 1, 3], [3, 2, 1, 0], [3, 1, 2, 0], [0, 1, 3, 2]]
        for k in (3, 4, 5):
            fams.append(('chainB%d' % (k - 1), {name_of(p): list(p) for p in chain2[:k]}))
    return fams


def cases(tier, seed):
    out = []
    ext = {2: (2, 3, 4, 5), 3: (2, 3, 4, 5), 4: (3, 4, 5)} if tier == 'quick' else {2: (1, 2, 3, 4, 5, 6, 7), 3: (1, 2, 3, 4, 5, 7), 4: (2, 3, 4, 5, 7)}
    for d in (2, 3, 4):
        for fam, L in _families(d, tier):
            npairs = len(L) ** 2
            for nprocs in _grids(tier):
                if len(nprocs) > d:
                    continue
                need = _needs(L, nprocs)
                shapes = [s for s in itertools.product(ext[d], repeat=d) if all(x >= n for x, n in zip(s, need))]
                if d == 4:
                    # classes p, p+1, 2p-1, 2p, 2p+1 are all realised inside the extent set; thin the cube for the big families
                    if fam in ('all',):
                        shapes = [s for s in shapes if len(set(s)) >= 3 or s[0] != s[1]][::7]
                    elif tier == 'quick':
                        shapes = shapes[::5] if fam == 'phys' else shapes[::23]
                    else:
                        shapes = shapes[::2] if fam == 'phys' else shapes[::9]
                elif d == 3 and fam.startswith('sub'):
                    shapes = shapes[::5] if tier == 'quick' else shapes[::3]
                for shape in shapes:
                    for dtype in ('float64', 'complex128', 'int64'):
                        if dtype != 'float64' and (fam.startswith('sub') or fam == 'phys1' or (d == 4 and fam == 'all')):
                            continue
                        for usebuf in (False, True):
                            out.append({'d': d, 'fam': fam, 'layouts': L, 'nprocs': nprocs, 'shape': list(shape),
                                        'dtype': dtype, 'buf': usebuf, 'cost': npairs * (nprocs[0] * (nprocs[1] if len(nprocs) > 1 else 1))})
    # lopsided shapes: one extent much longer than the others, so that the buffer needed by a single swap
    # (block of the long dimension x process count) exceeds every layout's own block; only layout sets with
    # few pairs, otherwise another pair masks an undersized bufferSize
    from pgv.lay import perms, name_of
    P3 = perms(3)
    lop3 = [(9, 2, 3), (2, 9, 3), (3, 2, 9), (9, 9, 2), (2, 3, 9), (9, 3, 3)] + ([(17, 2, 3), (2, 3, 17), (3, 17, 2)] if tier == 'thorough' else [])
    for sub in itertools.combinations(P3, 2):
        L = {name_of(p): list(p) for p in sub}
        for nprocs in ([2], [3], [1, 2], [2, 1], [2, 2], [1, 3], [3, 1]):
            need = _needs(L, nprocs)
            for shape in lop3:
                if all(x >= n for x, n in zip(shape, need)):
                    for usebuf in (False, True):
                        out.append({'d': 3, 'fam': 'lop2', 'layouts': L, 'nprocs': nprocs, 'shape': list(shape), 'dtype': 'float64', 'buf': usebuf, 'cost': 8})
    # a chain of five orderings of a 3-D array without shortcuts: routes of 1 to 4 steps on every 2-D process grid (the parity of
    # the route length decides which of the two work arrays holds the result)
    chain5 = [(0, 1, 2), (0, 2, 1), (1, 2, 0), (1, 0, 2), (2, 0, 1)]
    L5 = {name_of(p): list(p) for p in chain5}
    for nprocs in ([2, 2], [2, 3], [3, 2]) + (([3, 3], [2, 4]) if tier == 'thorough' else ()):
        need = _needs(L5, nprocs)
        for shape in ((4, 4, 4), (5, 7, 6), (4, 5, 7)) + (((6, 6, 5), (9, 4, 5)) if tier == 'thorough' else ()):
            if all(x >= n for x, n in zip(shape, need)):
                for dtype in ('float64', 'complex128'):
                    for usebuf in (False, True):
                        out.append({'d': 3, 'fam': 'chain5-3d', 'layouts': L5, 'nprocs': list(nprocs), 'shape': list(shape), 'dtype': dtype, 'buf': usebuf, 'cost': 25 * nprocs[0] * nprocs[1]})
    lop4 = [(5, 8, 6, 30), (21, 21, 3, 16), (3, 4, 13, 3), (13, 3, 3, 4), (3, 13, 4, 13)]
    for nprocs in [[1, 3], [2, 2], [3, 1], [2, 3], [1, 2]] + ([[1, 4], [4, 1], [3, 3]] if tier == "thorough" else []):
        need = _needs(PHYS, nprocs)
        for shape in lop4:
            if all(x >= n for x, n in zip(shape, need)):
                for usebuf in (False, True):
                    out.append({'d': 4, 'fam': 'lop-phys', 'layouts': dict(PHYS), 'nprocs': nprocs, 'shape': list(shape), 'dtype': 'float64', 'buf': usebuf, 'cost': 60})
                    out.append({'d': 4, 'fam': 'lop-phys', 'layouts': dict(PHYS), 'nprocs': nprocs, 'shape': list(shape), 'dtype': 'complex128', 'buf': usebuf, 'oversize': 5, 'cost': 60})
    return out


def run_case(case):
    import numpy as np
    from pgv import simmpi, lay
    from pygyro.model.layout import getLayoutHandler
    MPI = simmpi.install()
    L = case['layouts']
    nprocs = list(case['nprocs'])
    shape = case['shape']
    size = int(np.prod(nprocs))
    dtype = lay.DTYPES[case['dtype']]
    G = lay.global_array(shape, dtype)
    eta = lay.eta_for(shape)
    names = list(L)
    pairs = [(a, b, 0) for a in names for b in names]
    P = lay.poison_value(dtype)
    usebuf = case['buf']
    # every ordered pair is requested a second time on the same handler (in reverse order of visit): nothing a transpose
    # leaves behind in the handler (route tables, scratch state) may change the next one.  The second pass moves a field
    # that is exactly zero on half of every axis (whole sender-by-receiver tiles vanish): the movement must not look at values
    pairs = pairs + [(a, b, 1) for (a, b, _) in pairs[::-1]]
    G0 = G
    Z = G.copy()
    for ax in range(Z.ndim):
        sl = [slice(None)] * Z.ndim
        sl[ax] = slice(0, max(1, Z.shape[ax] // 2)) if ax % 2 == 0 else slice(Z.shape[ax] // 2, None)
        Z[tuple(sl)] = 0

    def make_ctx(r):
        return getLayoutHandler(MPI.COMM_WORLD, L, nprocs, eta)

    def do_item(h, pair):
        a, b, pat = pair
        G = Z if pat else G0
        la, lb = h.getLayout(a), h.getLayout(b)
        n = h.bufferSize + int(case.get('oversize', 0))      # arrays may be larger than bufferSize (transpose only requires >=)
        src = np.full(n, P, dtype=dtype)
        dst = np.full(n, P, dtype=dtype)
        buf = np.full(n, P, dtype=dtype) if usebuf else None
        blk = lay.block(G, la)
        src[:la.size] = blk.ravel()
        h.transpose(src, dst, a, b, buf)
        probs = []
        if not lay.same(dst[:lb.size].reshape(lb.shape), lay.block(G, lb)):
            probs.append('dest')
        if usebuf and not lay.same(src[:la.size].reshape(la.shape), blk):
            probs.append('source-not-intact')
        if la.size > h.bufferSize or lb.size > h.bufferSize:
            probs.append('bufferSize-too-small')
        return probs

    viols = []
    results, cerr, nworlds = lay.run_items(size, make_ctx, pairs, do_item)
    stats = {'worlds': nworlds, 'rejected_sets': 0, 'pairs_with_communication': 0}
    if cerr is not None:
        if 'could not be connected' in cerr:
            stats['rejected_sets'] = 1
            return {'evals': 1, 'nontrivial': 0, 'violations': [], 'stats': stats, 'sample': {'rejected': cerr}}
        viols.append({'sig': 'construct:' + cerr.split(':')[0], 'what': 'handler construction failed: ' + cerr, 'detail': {}})
        return {'evals': 1, 'nontrivial': 0, 'violations': viols, 'stats': stats, 'sample': None}
    uneven = any(shape[L[nm][pos]] % n for nm in names for pos, n in enumerate(nprocs) if n > 1)
    nontriv = 0
    seen = {}
    for i, (a, b, pat) in enumerate(pairs):
        comm = any(n > 1 and L[a][pos] != L[b][pos] for pos, n in enumerate(nprocs))
        if comm:
            stats['pairs_with_communication'] += 1
            if uneven:
                nontriv += 1
        res = results.get(i, {'problems': ['missing'], 'exc': None})
        if res.get('skipped'):
            continue
        if res['exc']:
            sig = 'exception:' + res.get('exc_type', '?')
            seen.setdefault(sig, {'sig': sig, 'what': 'transpose %s->%s raised %s (shape %r grid %r %s buf=%s)' % (a, b, res['exc'], shape, nprocs, case['dtype'], usebuf),
                                  'detail': {'pair': [a, b]}})
        for p in sorted(set(res['problems'])):
            sig = 'wrong:' + p
            seen.setdefault(sig, {'sig': sig, 'what': 'transpose %s->%s: %s (shape %r grid %r %s buf=%s)' % (a, b, p, shape, nprocs, case['dtype'], usebuf),
                                  'detail': {'pair': [a, b]}})
    viols = list(seen.values())
    return {'evals': len(pairs), 'nontrivial': nontriv, 'violations': viols, 'stats': stats,
            'sample': {'pairs': len(pairs), 'size': size}}
