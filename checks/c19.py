"""C19 Accelerated kernels compute the same results as the pure-Python reference.

The documented build (make ACC=pycc) is run on a scratch copy of /repo's *current working
tree*; every exported kernel of the five compiled modules is then called with identical
arguments in its compiled and its interpreted form over structural lattices, and the
numba / pythran source copies are executed as plain Python (stub decorators) over the same
inputs.
"""
import itertools
import os

PROPERTY = 'C19'
LEVEL = 'exploration'
TIMEOUT_S = 900
RULE = ('obligation 1: `make ACC=pycc pycc` succeeds on a scratch copy of the current tree and every function defined in the five kernel sources is exported '
        'by the compiled module; then for every exported kernel a driver enumerates structural arguments (degrees 1-5, clamped/periodic non-uniform knots, '
        'uniform-cubic descriptors, evaluation points at cell edges / +-1 ulp / interior, derivative flags, all z indices x positive / negative / multi-period '
        'stencil shifts, the three v boundary modes with feet inside / outside / several periods away, both poloidal time schemes and boundary modes, float '
        'and complex density storage, initialisation functions on a parameter grid) and compares outputs and in-place updates of the compiled function with the '
        'interpreted one (1e-13 relative); implementations: pyccel-compiled with both back ends of the Makefile (Fortran, the default, and LANGUAGE=c), numba copies and pythran copies executed as plain Python; function-name sets '
        'of the copies are compared with the pyccel sources; an evaluation is one kernel call compared; non-trivial = every call')
ASSUMPTIONS = ['pyccel 2.0.1 + gfortran as installed', 'numba / pythran are not installed: their source copies are executed as plain Python with identity decorators, compiled artefacts are not claimed',
               'out-of-bounds writes of a compiled kernel are only seen through guard slabs / crashes of the worker process']

MODULES = {
    'spline_eval_funcs': 'pygyro/splines',
    'cubic_uniform_spline_eval_funcs': 'pygyro/splines',
    'accelerated_advection_steps': 'pygyro/advection',
    'poisson_tools': 'pygyro/poisson',
    'initialiser_funcs': 'pygyro/initialisation',
}
COPIES = {
    'numba': {'spline_eval_funcs': 'pygyro/splines/numba_spline_eval_funcs.py', 'cubic_uniform_spline_eval_funcs': 'pygyro/splines/numba_cubic_uniform_spline_eval_funcs.py',
              'accelerated_advection_steps': 'pygyro/advection/numba_accelerated_advection_steps.py', 'poisson_tools': 'pygyro/poisson/numba_poisson_tools.py',
              'initialiser_funcs': 'pygyro/initialisation/numba_initialiser_funcs.py'},
    'pythran': {'spline_eval_funcs': 'pygyro/splines/pythran_spline_eval_funcs.py', 'cubic_uniform_spline_eval_funcs': 'pygyro/splines/pythran_cubic_uniform_spline_eval_funcs.py',
                'accelerated_advection_steps': 'pygyro/advection/pythran_deps/pythran_accelerated_advection_steps.py', 'poisson_tools': 'pygyro/poisson/pythran_poisson_tools.py',
                'initialiser_funcs': 'pygyro/initialisation/pythran_initialiser_funcs.py'},
}


def prepare(tier):
    """scratch build of the current working tree; returns dict(build=path, ok=bool, log=tail)"""
    import subprocess
    from pgv import env
    e = dict(os.environ)
    e['PATH'] = '/venv/bin:' + e.get('PATH', '')
    # two builds of the same tree side by side: the default back end (Fortran) and the other one the Makefile offers (C)
    procs = []
    for tag, extra in (('c19build', []), ('c19buildc', ['LANGUAGE=c'])):
        d = env.scratch_dir(tag)
        subprocess.run(['rsync', '-a', '--exclude', '.git', '--exclude', 'pygyro.egg-info', '--exclude', '*.so', '--exclude', '__pyccel__', '--exclude', '__pycache__',
                        env.REPO + '/', d + '/'], check=True)
        procs.append((d, subprocess.Popen(['make', 'ACC=pycc', 'PYTHON=/venv/bin/python'] + extra + ['pycc'], cwd=d, env=e, stdout=subprocess.PIPE, stderr=subprocess.STDOUT, text=True)))
    res = []
    for d, p in procs:
        try:
            out, _ = p.communicate(timeout=1500)
        except subprocess.TimeoutExpired:
            p.kill()
            out = 'build timed out'
        res.append((d, p.returncode == 0, (out or '')[-1500:]))
    return {'build': res[0][0], 'ok': res[0][1], 'log': res[0][2], 'build_c': res[1][0], 'ok_c': res[1][1], 'log_c': res[1][2]}


def cleanup(prep):
    from pgv import env
    if prep:
        env.rm(prep['build'])
        if prep.get('build_c'):
            env.rm(prep['build_c'])
        env.cleanup_root()


def rebind_case(case, prep):
    case = dict(case)
    c_back = case.get('impl') == 'pyccel-c' or case.get('backend') == 'c'
    case['build'] = prep['build_c'] if c_back else prep['build']
    case['build_ok'] = prep['ok_c'] if c_back else prep['ok']
    case['log'] = prep['log_c'] if c_back else prep['log']
    return case


def cases(tier, seed, prep):
    out = [{'kind': 'build', 'build': prep['build'], 'build_ok': prep['ok'], 'log': prep['log'], 'cost': 1},
           {'kind': 'build', 'backend': 'c', 'build': prep['build_c'], 'build_ok': prep['ok_c'], 'log': prep['log_c'], 'cost': 1}]
    for mod in MODULES:
        for impl in ('pyccel', 'pyccel-c', 'numba', 'pythran'):
            if not impl.startswith('pyccel') and mod not in COPIES[impl]:
                continue
            parts = [0, 1, 2, 3] if mod == 'accelerated_advection_steps' else [0]
            for part in parts:
                c_back = impl == 'pyccel-c'
                out.append({'kind': 'diff', 'module': mod, 'impl': impl, 'part': part, 'tier': tier, 'build': prep['build_c'] if c_back else prep['build'],
                            'build_ok': prep['ok_c'] if c_back else prep['ok'], 'cost': 50})
    return out


# --------------------------------------------------------------------------------- loading
def _load_compiled(build, mod):
    import glob
    import importlib.util
    fs = glob.glob(os.path.join(build, MODULES[mod], mod + '.*.so'))
    if not fs:
        raise FileNotFoundError('no compiled module for ' + mod)
    spec = importlib.util.spec_from_file_location(mod, fs[0])
    m = importlib.util.module_from_spec(spec)
    spec.loader.exec_module(m)
    return m


def _stub_numba():
    import sys
    import types
    if 'numba' in sys.modules and getattr(sys.modules['numba'], '_pgv_stub', False):
        return
    nb = types.ModuleType('numba')
    nb._pgv_stub = True

    def njit(*a, **k):
        if len(a) == 1 and callable(a[0]) and not k:
            return a[0]
        return lambda f: f
    nb.njit = njit
    nb.jit = njit

    class _T:
        def __getitem__(self, k):
            return self

        def __call__(self, *a, **k):
            return self
    tys = types.ModuleType('numba.types')
    for n in ('f8', 'i4', 'i8', 'b1', 'c16', 'void'):
        setattr(tys, n, _T())
        setattr(nb, n, _T())
    pycc = types.ModuleType('numba.pycc')

    class CC:
        def __init__(self, name):
            self.name = name

        def export(self, *a, **k):
            return lambda f: f

        def compile(self):
            pass
    pycc.CC = CC
    nb.types = tys
    nb.pycc = pycc
    sys.modules['numba'] = nb
    sys.modules['numba.types'] = tys
    sys.modules['numba.pycc'] = pycc


def _load_copy(impl, mod):
    """plain-Python import of a numba / pythran source copy from the working tree"""
    import importlib.util
    import sys
    from pgv import env
    _stub_numba()
    root = os.path.join(env.REPO, 'pygyro')
    for p in (root, os.path.join(root, 'advection', 'pythran_deps'), os.path.join(root, 'splines'), os.path.join(root, 'initialisation')):
        if p not in sys.path:
            sys.path.append(p)
    path = os.path.join(env.REPO, COPIES[impl][mod])
    spec = importlib.util.spec_from_file_location('%s_%s_copy' % (impl, mod), path)
    m = importlib.util.module_from_spec(spec)
    spec.loader.exec_module(m)
    return m


# --------------------------------------------------------------------------------- drivers
def _knots(breaks, d, per):
    import numpy as np
    from pygyro.splines.splines import make_knots
    return np.ascontiguousarray(make_knots(np.asarray(breaks, dtype=float), d, per))


def _xalpha(br):
    import numpy as np
    br = np.asarray(br, dtype=float)
    xs = set(br.tolist())
    xs |= {float(np.nextafter(x, -np.inf)) for x in br[1:]} | {float(np.nextafter(x, np.inf)) for x in br[:-1]}
    xs |= set(((br[1:] + br[:-1]) / 2).tolist()) | set((br[:-1] + np.diff(br) / 3).tolist())
    return np.array(sorted(xs))


def _dense(n, m=None, seed=1):
    import numpy as np
    if m is None:
        return np.array([((7 * j * j + 3 * j + seed) % 11) - 5.0 + 0.25 * j for j in range(n)])
    return np.array([[((5 * i * i + 3 * j + 7 * i * j + seed) % 13) - 6.0 + 0.125 * i for j in range(m)] for i in range(n)])


def drive_spline_eval_funcs(m, tier, part=0):
    import numpy as np
    br = [0.0, 1.0, 3.0, 4.0, 6.0, 7.0, 9.0]
    X = _xalpha(br)
    for d in range(1, 6):
        for per in (False, True):
            kn = _knots(br, d, per)
            c = _dense(len(br) - 1 + d, seed=d)
            for x in X:
                sp = m.nu_find_span(kn, d, float(x))
                yield ('nu_find_span', d, per, x), sp
                vals = np.full(d + 1, np.nan)
                m.nu_basis_funs(kn, d, float(x), int(sp), vals)
                yield ('nu_basis_funs', d, per, x), vals
                vals = np.full(d + 1, np.nan)
                m.nu_basis_funs_1st_der(kn, d, float(x), int(sp), vals)
                yield ('nu_basis_funs_1st_der', d, per, x), vals
                for der in (0, 1):
                    yield ('nu_eval_spline_1d_scalar', d, per, x, der), m.nu_eval_spline_1d_scalar(float(x), kn, d, c, der)
            for der in (0, 1):
                y = np.full(len(X), np.nan)
                m.nu_eval_spline_1d_vector(X, kn, d, c, y, der)
                yield ('nu_eval_spline_1d_vector', d, per, der), y
                # the points of an array are in no particular order: decreasing and scrambled arrays
                for oname, o in (('decreasing', np.arange(len(X))[::-1]), ('scrambled', np.argsort((np.arange(len(X)) * 7919 + 13) % 10007))):
                    y = np.full(len(X), np.nan)
                    m.nu_eval_spline_1d_vector(np.ascontiguousarray(X[o]), kn, d, c, y, der)
                    yield ('nu_eval_spline_1d_vector', d, per, der, oname), y
    br2 = [0.0, 2.0, 3.0, 5.0]
    Y = _xalpha(br2)
    for (d1, p1), (d2, p2) in itertools.product(((1, False), (2, True), (3, False), (5, True)), ((2, False), (3, True), (4, False))):
        k1, k2 = _knots(br, d1, p1), _knots(br2, d2, p2)
        C = np.ascontiguousarray(_dense(len(br) - 1 + d1, len(br2) - 1 + d2, seed=d1 + d2))
        for e1, e2 in itertools.product((0, 1), repeat=2):
            z = np.full((len(X), len(Y)), np.nan)
            m.nu_eval_spline_2d_cross(X, Y, k1, d1, k2, d2, C, z, e1, e2)
            yield ('nu_eval_spline_2d_cross', d1, p1, d2, p2, e1, e2), z
            XX, YY = np.meshgrid(X[::2], Y, indexing='ij')
            xx, yy = np.ascontiguousarray(XX.ravel()), np.ascontiguousarray(YY.ravel())
            zv = np.full(xx.size, np.nan)
            m.nu_eval_spline_2d_vector(xx, yy, k1, d1, k2, d2, C, zv, e1, e2)
            yield ('nu_eval_spline_2d_vector', d1, p1, d2, p2, e1, e2), zv
            o = np.argsort((np.arange(xx.size) * 7919 + 13) % 10007)
            zv = np.full(xx.size, np.nan)
            m.nu_eval_spline_2d_vector(np.ascontiguousarray(xx[o]), np.ascontiguousarray(yy[o]), k1, d1, k2, d2, C, zv, e1, e2)
            yield ('nu_eval_spline_2d_vector', d1, p1, d2, p2, e1, e2, 'scrambled'), zv
            z = np.full((len(X), len(Y)), np.nan)
            m.nu_eval_spline_2d_cross(np.ascontiguousarray(X[::-1]), np.ascontiguousarray(Y[::-1]), k1, d1, k2, d2, C, z, e1, e2)
            yield ('nu_eval_spline_2d_cross', d1, p1, d2, p2, e1, e2, 'decreasing'), z
            sc = np.array([m.nu_eval_spline_2d_scalar(float(x), float(y), k1, d1, k2, d2, C, e1, e2) for x in X[::3] for y in Y[::2]])
            yield ('nu_eval_spline_2d_scalar', d1, p1, d2, p2, e1, e2), sc


def drive_cubic_uniform_spline_eval_funcs(m, tier, part=0):
    import numpy as np
    import math
    # incl. non-dyadic cell sizes with many cells: cell edges whose float value falls just below / above a multiple of dx
    for (xmin, dx, nc) in ((0.0, 1.0, 3), (0.3, 0.1, 4), (-3.0, 2.0, 7), (0.0, 0.25, 5), (0.0, 2 * math.pi / 33, 33), (0.1, 14.4 / 29, 29), (-7.32, 14.64 / 19, 19),
                           (0.0, 2 * math.pi / 101, 101)):
        xmax = xmin + dx * nc
        kn = np.array([xmin, xmax, dx, float(nc)])
        X = _xalpha(np.linspace(xmin, xmax, nc + 1))
        c = _dense(nc + 3, seed=nc)
        for x in X:
            sp = m.cu_find_span(xmin, xmax, dx, float(x), nc)
            yield ('cu_find_span', nc, dx, x), np.array([float(sp[0]), float(sp[1])])
            vals = np.full(4, np.nan)
            m.cu_basis_funs(int(sp[0]), float(sp[1]), vals)
            yield ('cu_basis_funs', nc, dx, x), vals
            vals = np.full(4, np.nan)
            m.cu_basis_funs_1st_der(int(sp[0]), float(sp[1]), dx, vals)
            yield ('cu_basis_funs_1st_der', nc, dx, x), vals
            for der in (0, 1):
                yield ('cu_eval_spline_1d_scalar', nc, dx, x, der), m.cu_eval_spline_1d_scalar(float(x), kn, 3, c, der)
        for der in (0, 1):
            y = np.full(len(X), np.nan)
            m.cu_eval_spline_1d_vector(X, kn, 3, c, y, der)
            yield ('cu_eval_spline_1d_vector', nc, dx, der), y
            y = np.full(len(X), np.nan)
            m.cu_eval_spline_1d_vector(np.ascontiguousarray(X[::-1]), kn, 3, c, y, der)
            yield ('cu_eval_spline_1d_vector', nc, dx, der, 'decreasing'), y
    for (a, b) in (((0.0, 1.0, 3), (0.3, 0.1, 4)), ((-3.0, 2.0, 7), (0.0, 0.25, 5)), ((0.0, 0.25, 5), (0.0, 1.0, 3)), ((0.0, 2 * math.pi / 33, 33), (0.1, 14.4 / 13, 13))):
        k1 = np.array([a[0], a[0] + a[1] * a[2], a[1], float(a[2])])
        k2 = np.array([b[0], b[0] + b[1] * b[2], b[1], float(b[2])])
        X = _xalpha(np.linspace(k1[0], k1[1], a[2] + 1))
        Y = _xalpha(np.linspace(k2[0], k2[1], b[2] + 1))
        C = np.ascontiguousarray(_dense(a[2] + 3, b[2] + 3, seed=a[2]))
        for e1, e2 in itertools.product((0, 1), repeat=2):
            z = np.full((len(X), len(Y)), np.nan)
            m.cu_eval_spline_2d_cross(X, Y, k1, 3, k2, 3, C, z, e1, e2)
            yield ('cu_eval_spline_2d_cross', a, b, e1, e2), z
            XX, YY = np.meshgrid(X, Y[::2], indexing='ij')
            xx, yy = np.ascontiguousarray(XX.ravel()), np.ascontiguousarray(YY.ravel())
            zv = np.full(xx.size, np.nan)
            m.cu_eval_spline_2d_vector(xx, yy, k1, 3, k2, 3, C, zv, e1, e2)
            yield ('cu_eval_spline_2d_vector', a, b, e1, e2), zv
            sc = np.array([m.cu_eval_spline_2d_scalar(float(x), float(y), k1, 3, k2, 3, C, e1, e2) for x in X[::3] for y in Y[::2]])
            yield ('cu_eval_spline_2d_scalar', a, b, e1, e2), sc


CST = (0.14711120412124, 0.055, 2.9, 7.3, 1.0, 0.27586, 1.45)       # CN0 kN0 deltaRN0 rp CTi kTi deltaRTi


def drive_accelerated_advection_steps(m, tier, part=0):
    import math
    import numpy as np
    tp = 2 * math.pi
    if part == 0:
        # flux_advection + get_lagrange_vals, with a guard slab around the output to expose out-of-bounds writes
        nz, nq = 7, 8
        q = np.linspace(0, tp, nq, endpoint=False)
        for cu in (True, False):
            if cu:
                kn = np.array([0.0, tp, tp / nq, float(nq)])
                deg = 3
            else:
                kn = _knots(np.linspace(0, tp, nq + 1) + np.array([0, 0.1, -0.1, 0.05, 0, 0.1, -0.05, 0, 0]), 3, True)
                deg = 3
            cq = _dense(nq + 3, seed=3) * 0.1
            cq[nq:] = cq[:3]
            for shifts in ([-2, -1, 0, 1, 2, 3], [-9, -8, -7, -6, -5, -4], [5, 6, 7, 8, 9, 10], [-3, -2, -1, 0, 1, 2], [0, 1, 2, 3, 4, 5], [-16, -15, -14, -13, -12, -11]):
                sh = np.array(shifts, dtype=np.int64)
                ts = 0.37 * sh
                for i in range(nz):
                    big = np.full((nz + 2, nq, 6), -777.0)
                    vals = big[1:-1]
                    m.get_lagrange_vals(i, sh, vals, q, ts, kn, deg, cq, cu)
                    yield ('get_lagrange_vals', cu, tuple(shifts), i), big.copy()
        for npt in (6, 2, 3, 4, 5, 7, 8, 9):            # stencil lengths: zDegree is a constructor argument, even and odd
            f = np.ascontiguousarray(_dense(nq, nz, seed=2))
            co = _dense(npt, seed=4) * 0.1 + 0.05
            vals = np.ascontiguousarray(np.array([[[math.sin(i + 2 * j + 3 * k) for k in range(npt)] for j in range(nq)] for i in range(nz)]))
            m.flux_advection(nq, nz, f, co, vals)
            yield ('flux_advection', npt), f
    elif part == 1:
        for cu in (True, False):
            if cu:
                kn = np.array([-3.0, 3.0, 1.0, 6.0])
                deg = 3
                nco = 9
                pts = np.array([-3.0, -3 + 1 / 3, -2, -1, 0, 1, 2, 3 - 1 / 3, 3.0])
            else:
                kn = _knots([-3.0, -2.0, -0.5, 0.0, 1.0, 3.0], 2, False)
                deg = 2
                nco = 7
                pts = np.array([-3.0, -2.5, -1.25, -0.25, 0.5, 2.0, 3.0])
            cv = _dense(nco, seed=5) * 0.3
            for bound in (0, 1, 2):
                for sh in (0.0, 0.4, -0.4, 1.0, 7.3, -13.1, 6.0, -6.0, 19.9):
                    for r in (0.1, 7.3, 14.5):
                        f = np.full(len(pts), np.nan)
                        m.v_parallel_advection_eval_step(f, np.ascontiguousarray(pts - sh), r, -3.0, 3.0, kn, deg, cv, *CST, bound, cu)
                        yield ('v_parallel_advection_eval_step', cu, bound, sh, r), f
    else:
        # poloidal steps
        from pygyro.splines.splines import BSplines, make_knots, Spline2D
        from pygyro.splines.spline_interpolators import SplineInterpolator2D
        nq, nr = 8, 6
        for cu in ((True,) if tier == 'quick' and part == 3 else (True, False)):
            bq = BSplines(make_knots(np.linspace(0, tp, nq + 1), 3, True), 3, True, cu)
            br = BSplines(make_knots(np.linspace(0.1, 14.5, nr - 2), 3, False), 3, False, cu)
            q, r = np.ascontiguousarray(bq.greville), np.ascontiguousarray(br.greville)
            Q, R = np.meshgrid(q, r, indexing='ij')
            # the potential lives on its own spline spaces (the kernels take knots and degrees of phi and of f separately):
            # more cells on the fast path, other degrees and breakpoints on the general path
            if cu:
                bqp = BSplines(make_knots(np.linspace(0, tp, nq + 3), 3, True), 3, True, True)
                brp = BSplines(make_knots(np.linspace(0.1, 14.5, nr), 3, False), 3, False, True)
            else:
                bqp = BSplines(make_knots(np.linspace(0, tp, nq + 1) + 0.1 * np.sin(np.linspace(0, tp, nq + 1)), 2, True), 2, True, False)
                brp = BSplines(make_knots(np.array([0.1, 2.0, 5.5, 7.0, 11.0, 14.5]), 4, False), 4, False, False)
            Qp, Rp = np.meshgrid(np.ascontiguousarray(bqp.greville), np.ascontiguousarray(brp.greville), indexing='ij')
            itp = SplineInterpolator2D(bq, br)
            itpp = SplineInterpolator2D(bqp, brp)
            for potf in (lambda Q, R: 0.5 * R * np.cos(Q) * np.sin(0.2 * R), lambda Q, R: 0.06 * R ** 2 / 2,
                         lambda Q, R: 0.01 * np.sin(2 * Q + 0.3) * (R - 0.1) + 0.05 * R * np.sin(Q)):
                phis = Spline2D(bqp, brp)
                itpp.compute_interpolant(potf(Qp, Rp), phis)
                f0 = np.cos(Q) * R + 1.0
                fs = Spline2D(bq, br)
                itp.compute_interpolant(f0, fs)
                for nul in (False, True):
                    for dt in ((0.1, -1.0, 5.0) if part == 2 else (0.1, -0.4)):
                        for v in (0.0, 2.0):
                            W = [np.full((nq, nr), np.nan) for _ in range(8)]
                            f = f0.copy()
                            args = (f, float(dt), float(v), r, q, *W, np.ascontiguousarray(bqp.knots), np.ascontiguousarray(brp.knots), np.ascontiguousarray(phis.coeffs), int(bqp.degree), int(brp.degree),
                                    np.ascontiguousarray(bq.knots), np.ascontiguousarray(br.knots), np.ascontiguousarray(fs.coeffs), 3, 3, *CST, 1.0)
                            if part == 2:
                                m.poloidal_advection_step_expl(*args, cu, nul)
                                yield ('poloidal_advection_step_expl', cu, nul, dt, v), np.concatenate([f.ravel()] + [w.ravel() for w in W[4:]])
                            else:
                                m.poloidal_advection_step_impl(*args, 1e-10, cu, nul)
                                yield ('poloidal_advection_step_impl', cu, nul, dt, v), np.concatenate([f.ravel()] + [w.ravel() for w in W[6:]])


def drive_poisson_tools(m, tier, part=0):
    import numpy as np
    g = np.ascontiguousarray(np.fromfunction(lambda a, b, c, d: np.sin(1 + a + 2 * b + 3 * c + 0.5 * d), (2, 3, 4, 6)))
    feq = np.ascontiguousarray(np.fromfunction(lambda a, d: np.cos(a + 0.3 * d), (2, 6)))
    qc = _dense(6, seed=6) * 0.1
    for dtype in (float, complex):
        rho = np.full((2, 3, 4), np.nan, dtype=dtype)
        m.get_perturbed_rho(rho, feq, g, qc)
        yield ('get_perturbed_rho', dtype.__name__), rho
        rho = np.full((2, 3, 4), np.nan, dtype=dtype)
        m.get_rho(rho, g, qc)
        yield ('get_rho', dtype.__name__), rho


def drive_initialiser_funcs(m, tier, part=0):
    import numpy as np
    rs = (0.1, 3.0, 7.3, 14.5)
    vs = (-7.32, -1.0, 0.0, 2.5)
    for r in rs:
        yield ('n0', r), m.n0(r, CST[0], CST[1], CST[2], CST[3])
        yield ('Ti', r), m.Ti(r, CST[4], CST[5], CST[6], CST[3])
        yield ('Te', r), m.Te(r, 1.0, 0.27586, 1.45, CST[3])
        yield ('n0deriv_normalised', r), m.n0deriv_normalised(r, CST[1], CST[3], CST[2])
        for v in vs:
            yield ('f_eq', r, v), m.f_eq(r, v, *CST)
            if hasattr(m, 'init_f'):
                for (mm, nn) in ((15, 1), (3, -2)):
                    yield ('init_f', r, v, mm, nn), m.init_f(r, 0.7, 100.0, v, mm, nn, 1e-3, *CST, 16.0, 239.8)
        for (mm, nn) in ((15, 1), (3, -2)):
            yield ('perturbation', r, mm, nn), m.perturbation(r, 0.7, 100.0, mm, nn, CST[3], 16.0, 239.8)
    if hasattr(m, 'init_f_flux'):
        th = np.linspace(0, 6, 5)
        zz = np.linspace(0, 1500, 4)
        rr = np.array(rs)
        vv = np.array(vs)
        s = np.full((5, 4), np.nan)
        m.init_f_flux(s, 3.0, th, zz, 1.5, 3, -2, 1e-2, *CST, 16.0, 239.8)
        yield ('init_f_flux',), s
        s = np.full((5, 4), np.nan)
        m.init_f_pol(s, rr, th, 120.0, 1.5, 3, -2, 1e-2, *CST, 16.0, 239.8)
        yield ('init_f_pol',), s
        s = np.full((5, 4), np.nan)
        m.init_f_vpar(s, 3.0, th, 120.0, vv, 3, -2, 1e-2, *CST, 16.0, 239.8)
        yield ('init_f_vpar',), s
        s = np.full((4, 4), np.nan)
        m.feq_vector(s, rr, vv, *CST)
        yield ('feq_vector',), s


DRIVERS = {'spline_eval_funcs': drive_spline_eval_funcs, 'cubic_uniform_spline_eval_funcs': drive_cubic_uniform_spline_eval_funcs,
           'accelerated_advection_steps': drive_accelerated_advection_steps, 'poisson_tools': drive_poisson_tools, 'initialiser_funcs': drive_initialiser_funcs}


def _source_defs(path):
    import ast
    import warnings
    with warnings.catch_warnings():
        warnings.simplefilter('ignore')
        return [n.name for n in ast.parse(open(path).read()).body if isinstance(n, ast.FunctionDef)]


def run_case(case):
    import importlib
    import numpy as np
    from pgv import env
    env.setup()
    viols = {}

    def V(sig, what):
        viols.setdefault(sig, {'sig': sig, 'what': what, 'detail': {}})
    if case['kind'] == 'build':
        evals = 1
        if not case['build_ok']:
            V('documented-build-fails' + (':LANGUAGE=c' if case.get('backend') == 'c' else ''), '`make ACC=pycc%s pycc` failed on a copy of the current tree: ' % (' LANGUAGE=c' if case.get('backend') == 'c' else '') + case['log'][-600:])
        else:
            for mod, rel in MODULES.items():
                evals += 1
                try:
                    cm = _load_compiled(case['build'], mod)
                except Exception as e:  # noqa
                    V('compiled-module-missing:' + mod, '%s: %s' % (type(e).__name__, e))
                    continue
                defs = _source_defs(os.path.join(env.REPO, rel, mod + '.py'))
                missing = [d for d in defs if not hasattr(cm, d)]
                if missing:
                    V('kernel-not-exported:' + mod, 'compiled %s lacks %r' % (mod, missing))
                for impl, table in COPIES.items():
                    if mod in table:
                        evals += 1
                        cd = _source_defs(os.path.join(env.REPO, table[mod]))
                        miss = [d for d in defs if d not in cd]
                        if miss:
                            V('%s-copy-lacks-functions:%s' % (impl, mod), '%s lacks the functions %r defined in %s.py' % (table[mod], miss, mod))
        return {'evals': evals, 'nontrivial': evals, 'violations': list(viols.values()), 'stats': {'builds': 1}, 'sample': {'build_ok': case['build_ok']}}
    mod, impl = case['module'], case['impl']
    if impl.startswith('pyccel') and not case['build_ok']:
        return {'evals': 0, 'nontrivial': 0, 'violations': [], 'stats': {}, 'sample': None}
    rel = MODULES[mod]
    ref = importlib.import_module(rel.replace('/', '.') + '.' + mod)
    assert ref.__file__.endswith('.py')
    try:
        other = _load_compiled(case['build'], mod) if impl.startswith('pyccel') else _load_copy(impl, mod)
    except Exception as e:  # noqa
        V('cannot-load:%s:%s' % (impl, mod), '%s: %s' % (type(e).__name__, e))
        return {'evals': 1, 'nontrivial': 1, 'violations': list(viols.values()), 'stats': {}, 'sample': None}
    drv = DRIVERS[mod]
    evals = 0
    worst = 0.0
    kernels = set()
    def collect(m, who):
        out = {}
        g = drv(m, case['tier'], case['part'])
        while True:
            try:
                la, a = next(g)
            except StopIteration:
                break
            except AttributeError as e:
                if who != 'ref':
                    V('%s-copy-lacks-functions:%s' % (impl, mod), '%s: %s' % (impl, e))
                break
            except Exception as e:  # noqa
                V('kernel-exception:%s:%s' % (who, mod), '%s driver of %s raised %s: %s after %d calls' % (who, mod, type(e).__name__, e, len(out)))
                break
            out[repr(la)] = (la, np.asarray(a))
        return out
    A = collect(ref, 'ref')
    B = collect(other, impl)
    for key, (la, a) in A.items():
        if key not in B:
            continue
        b = B[key][1]
        evals += 1
        kernels.add(la[0])
        if a.shape != b.shape:
            V('kernel-differs:%s:%s' % (impl, la[0]), '%r: shapes %r vs %r' % (la, a.shape, b.shape))
            continue
        na, nb_ = np.isnan(a.astype(complex)), np.isnan(b.astype(complex))
        if (na != nb_).any():
            V('kernel-differs:%s:%s' % (impl, la[0]), '%r: different entries left unwritten (NaN pattern differs)' % (la,))
            continue
        aa, bb = a[~na], b[~nb_]
        if aa.size:
            err = float(np.abs(aa - bb).max())
            tol = 1e-13 * max(1.0, float(np.abs(aa).max()))
            worst = max(worst, err / tol)
            if not err <= tol:
                V('kernel-differs:%s:%s' % (impl, la[0]), '%s %r: max difference %.3g between the %s and the interpreted kernel' % (la[0], la[1:], err, impl))
    missing = sorted(set(v[0][0] for k, v in A.items() if k not in B))
    if missing and impl.startswith('pyccel'):
        V('kernel-not-driven:' + mod, 'compiled kernels without comparable calls: %r' % missing)
    return {'evals': evals, 'nontrivial': evals, 'violations': list(viols.values()), 'stats': {'max_err_over_tol': worst, 'kernels_driven': sorted(kernels)},
            'sample': {'module': mod, 'implementation': impl, 'calls_compared': evals, 'kernels': sorted(kernels)}}
