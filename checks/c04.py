"""C04 Grid layout changes and save/restore behave like a single global array.

Explicit-state breadth-first search over the real Grid object on every rank of a simulated
MPI world.  A state is the operation history that reaches it (fresh world and objects,
history replayed); states are merged by a canonical key; the search runs to closure.
"""
import collections

PROPERTY = 'C04'
LEVEL = 'model_checking'
TIMEOUT_S = 1500
RULE = ('per configuration (handler- or swapper-backed grid, shape, process grid, save memory yes/no, dtype) BFS over the alphabet '
        '{setLayout(x) for every layout, write(pattern 0/1), saveGridValues, restoreGridValues, freeGridSave}; every transition '
        're-builds the world and the Grid, replays the history plus one operation on all ranks and compares getAllData()/currentLayout '
        'with a one-array reference model (+ optional saved (array, layout)); refused operations must raise AssertionError on every '
        'rank and leave the state unchanged; canonical key = (layout, notSaved, saved (pattern, layout) according to the model AND as actually held in the save buffer, buffer-index permutation, live '
        'pattern, swapper manager) per rank; dead buffer regions are NaN-poisoned before every operation so merged states have equal '
        'futures; search runs to closure (no new key), which covers histories of any length; non-trivial = transition that moves data '
        'between ranks or touches the save; plus, per process grid, two managers with the same layout names and other orderings, one grid each, '
        'moved in lockstep through every ordered pair of layouts')
ASSUMPTIONS = ['Grid keeps its state in _my_data/_dataIdx/_buffIdx/_saveIdx/notSaved/_savedLayout (used for poisoning dead regions and for the state key only)',
               'the layout code has no data-dependent control flow, so NaN is a faithful representative of arbitrary dead data',
               'simmpi collectives']

PHYS = {'flux_surface': [0, 3, 1, 2], 'v_parallel': [0, 2, 1, 3], 'poloidal': [3, 2, 1, 0]}
LP = {'v_parallel_2d': [0, 2, 1], 'mode_solve': [1, 2, 0]}
LV = {'v_parallel_1d': [0, 2, 1]}
LPOL = {'poloidal': [2, 1, 0]}
# swapper whose routes have up to 4 steps and cross from the 2-D group into the 1-D group at the end
L4A = {'flux_surface2': [0, 3, 1, 2], 'v_parallel': [0, 2, 1, 3], 'poloidal': [3, 2, 1, 0]}
L4B = {'flux_surface1': [0, 3, 1, 2], 'z_surface': [2, 3, 1, 0]}


def cases(tier, seed):
    out = []
    if tier == 'quick':
        grids = [(1, 1), (1, 2), (2, 1), (2, 2), (3, 2)]
        shapes = {'handler4': [[3, 4, 5, 4]], 'swapper3': [[5, 6, 7]]}
    else:
        grids = [(1, 1), (1, 2), (2, 1), (2, 2), (1, 3), (3, 1), (2, 3), (3, 2), (3, 3)]
        shapes = {'handler4': [[3, 4, 5, 4], [4, 5, 7, 8]], 'swapper3': [[5, 6, 7], [4, 4, 4]]}
    for kind in ('handler4', 'swapper3'):
        for shape in shapes[kind]:
            for g in grids:
                if kind == 'handler4':
                    if min(shape[0], shape[3]) < g[0] or min(shape[2], shape[3]) < g[1]:
                        continue
                else:
                    if min(shape[0], shape[1]) < g[0] or min(shape[2], shape[1]) < g[1]:
                        continue
                for save in (True, False):
                    for dtype in ('float64', 'complex128'):
                        if tier == 'quick' and dtype == 'complex128' and (g not in ((2, 2), (1, 2)) or not save):
                            continue
                        out.append({'kind': kind, 'shape': shape, 'grid': list(g), 'save': save, 'dtype': dtype,
                                    'cost': (300 if save else 10) * g[0] * g[1]})
                        # a second grid on the SAME layout manager changes layout between the operations (state kept in the manager)
                        if save and dtype == 'float64' and g in (((1, 2),) if tier == 'quick' else ((1, 2), (2, 2))) and shape == shapes[kind][0] and (kind == 'swapper3' or tier == 'thorough'):
                            out.append({'kind': kind, 'shape': shape, 'grid': list(g), 'save': save, 'dtype': dtype, 'shared': True,
                                        'cost': 500 * g[0] * g[1]})
    # two managers in one process that give the same layout names other dimension orderings, one grid on each, moved in lockstep through
    # every ordered pair of layouts (whichever manager moves first): nothing a manager remembers may be keyed by the names alone
    for kind in ('handler4', 'swapper3'):
        for g in grids:
            shape = [4, 4, 5, 4] if kind == 'handler4' else [5, 6, 7]
            if (kind == 'handler4' and (min(shape[0], shape[3]) < g[0] or min(shape[2], shape[3]) < g[1])) or (kind == 'swapper3' and (min(shape[0], shape[1]) < g[0] or min(shape[2], shape[1]) < g[1])):
                continue
            out.append({'kind': 'twomanagers', 'base': kind, 'shape': shape, 'grid': list(g), 'save': False, 'dtype': 'float64', 'cost': 100 * g[0] * g[1]})
    for g in ([(2, 2)] if tier == 'quick' else [(2, 2), (2, 3), (3, 2)]):
        out.append({'kind': 'swapper4long', 'shape': [3, 4, 5, 4] if tier == 'quick' else [4, 5, 7, 6], 'grid': list(g), 'save': True, 'dtype': 'float64', 'cost': 2500})
    return out


PHYS_ALIAS = {'flux_surface': [0, 2, 1, 3], 'v_parallel': [0, 3, 1, 2], 'poloidal': [3, 2, 1, 0]}
LP_ALIAS = {'v_parallel_2d': [1, 2, 0], 'mode_solve': [0, 2, 1]}


def _two_managers(case):
    import numpy as np
    from pgv import simmpi, lay
    from pygyro.model.layout import getLayoutHandler, LayoutSwapper
    from pygyro.model.grid import Grid
    MPI = simmpi.install()
    shape = case['shape']
    nprocs = list(case['grid'])
    size = nprocs[0] * nprocs[1]
    eta = lay.eta_for(shape)
    PAT = [lay.global_array(shape, np.float64, k) for k in range(2)]
    if case['base'] == 'handler4':
        names, start = list(PHYS), 'flux_surface'
    else:
        names, start = list(LP) + list(LV) + list(LPOL), 'mode_solve'
    pairs = [(a, b) for a in names for b in names if a != b]

    def fn(r):
        comm = MPI.COMM_WORLD
        if case['base'] == 'handler4':
            mans = [getLayoutHandler(comm, dict(PHYS), nprocs, eta), getLayoutHandler(comm, dict(PHYS_ALIAS), nprocs, eta)]
        else:
            mans = [LayoutSwapper(comm, [dict(LP), dict(LV), dict(LPOL)], [nprocs, nprocs[0], nprocs[1]], eta, start),
                    LayoutSwapper(comm, [dict(LP_ALIAS), dict(LV), dict(LPOL)], [nprocs, nprocs[0], nprocs[1]], eta, start)]
        gs = [Grid(eta, [None] * len(shape), m, start, comm, dtype=np.float64) for m in mans]
        for k, g in enumerate(gs):
            g.getAllData()[:] = lay.block(PAT[k], g.getLayout(start))
        viol = []
        moves = 0
        for i, (a, b) in enumerate(pairs):
            for target in (a, b):
                for k in ((0, 1) if i % 2 == 0 else (1, 0)):
                    g = gs[k]
                    if g.currentLayout != target:
                        g.setLayout(target)
                        moves += 1
                    if g.currentLayout != target or not lay.same(np.asarray(g.getAllData()), lay.block(PAT[k], g.getLayout(target))):
                        viol.append('grid of manager %d wrong in layout %s (pair %s->%s)' % (k, target, a, b))
        return viol, moves
    vio = {}
    moves = 0
    try:
        w = simmpi.World(size)
        res = w.run(fn)
        for rnk, (viol, mv) in enumerate(res):
            moves = max(moves, mv)
            for v in viol[:1]:
                vio.setdefault('wrong:two-managers-same-names', {'sig': 'wrong:two-managers-same-names', 'what': 'rank %d: %s (%s shape %r grid %r)' % (rnk, v, case['base'], shape, nprocs), 'detail': {}})
    except Exception as e:  # noqa
        sig = 'exception:two-managers:' + type(e).__name__
        vio[sig] = {'sig': sig, 'what': 'two managers with the same layout names: %s: %s (%s shape %r grid %r)' % (type(e).__name__, e, case['base'], shape, nprocs), 'detail': {}}
    return {'evals': moves, 'nontrivial': moves if size > 1 else 0, 'violations': list(vio.values()),
            'stats': {'states': len(names) ** 2, 'transitions': moves}, 'sample': {'ordered_pairs': len(pairs), 'moves': moves}}


def run_case(case):
    if case['kind'] == 'twomanagers':
        return _two_managers(case)
    import numpy as np
    from pgv import simmpi, lay
    from pygyro.model.layout import getLayoutHandler, LayoutSwapper
    from pygyro.model.grid import Grid
    MPI = simmpi.install()
    shape = case['shape']
    nprocs = list(case['grid'])
    size = nprocs[0] * nprocs[1]
    savemem = case['save']
    dtype = lay.DTYPES[case['dtype']]
    eta = lay.eta_for(shape)
    PAT = [lay.global_array(shape, dtype, k) for k in range(2)]
    PAT[1] = lay.zero_bands(PAT[1])          # the second pattern has exactly-zero bands (value-dependent shortcuts in the data movement)
    P = lay.poison_value(dtype)
    if case['kind'] == 'handler4':
        names = list(PHYS)
        start = 'flux_surface'
    elif case['kind'] == 'swapper4long':
        names = list(L4A) + list(L4B)
        start = 'poloidal'
    else:
        names = list(LP) + list(LV) + list(LPOL)
        start = 'mode_solve'
    OPS = [('lay', n) for n in names] + [('write', 0), ('write', 1), ('save',), ('restore',), ('free',)]

    def poison(g):
        L = g._layout.size
        for i, b in enumerate(g._my_data):
            if i == g._dataIdx:
                b[L:] = P
            elif g.hasSaveMemory and i == g._saveIdx and not g.notSaved:
                b[g.getLayout(g._savedLayout).size:] = P
            else:
                b[:] = P

    def ident(arr, g, lname):
        l = g.getLayout(lname)
        for k in range(2):
            if lay.same(np.asarray(arr), lay.block(PAT[k], l)):
                return k
        return 'BAD'

    def build(hist):
        def fn(r):
            comm = MPI.COMM_WORLD
            if case['kind'] == 'handler4':
                man = getLayoutHandler(comm, dict(PHYS), nprocs, eta)
            elif case['kind'] == 'swapper4long':
                man = LayoutSwapper(comm, [dict(L4A), dict(L4B)], [nprocs, nprocs[0]], eta, start)
            else:
                man = LayoutSwapper(comm, [dict(LP), dict(LV), dict(LPOL)], [nprocs, nprocs[0], nprocs[1]], eta, start)
            g = Grid(eta, [None] * len(shape), man, start, comm, dtype=dtype, allocateSaveMemory=savemem)
            g.getAllData()[:] = lay.block(PAT[0], g.getLayout(start))
            g2 = None
            if case.get('shared'):
                g2 = Grid(eta, [None] * len(shape), man, names[-1], comm, dtype=dtype)
                g2.getAllData()[:] = lay.block(PAT[1], g2.getLayout(names[-1]))
            model = {'lay': start, 'data': 0, 'saved': None}
            viol = []
            moved = 0
            for op in hist:
                poison(g)
                if g2 is not None:
                    for nm2 in (names[0], names[-1]):
                        g2.setLayout(nm2)
                        if not lay.same(np.asarray(g2.getAllData()), lay.block(PAT[1], g2.getLayout(nm2))):
                            viol.append('second-grid-on-same-manager-corrupted')
                before = (g.currentLayout, getattr(g, 'notSaved', None), g._dataIdx, g._buffIdx, g._saveIdx)
                try:
                    if op[0] == 'lay':
                        g.setLayout(op[1])
                        model['lay'] = op[1]
                    elif op[0] == 'write':
                        blk = lay.block(PAT[op[1]], g.getLayout(g.currentLayout))
                        if op[1] == 0:
                            g.getAllData()[:] = blk
                        elif len(shape) == 4:
                            for i in range(blk.shape[0]):
                                for j in range(blk.shape[1]):
                                    g.get2DSlice(i, j)[:] = blk[i, j]
                        else:
                            for i in range(blk.shape[0]):
                                for j in range(blk.shape[1]):
                                    g.get1DSlice(i, j)[:] = blk[i, j]
                        model['data'] = op[1]
                    elif op[0] == 'save':
                        g.saveGridValues()
                        if model['saved'] is not None or not savemem:
                            viol.append('not-refused:save')
                        model['saved'] = (model['data'], model['lay'])
                    elif op[0] == 'restore':
                        g.restoreGridValues()
                        if model['saved'] is None:
                            viol.append('not-refused:restore')
                        else:
                            model['data'], model['lay'] = model['saved']
                            model['saved'] = None
                    elif op[0] == 'free':
                        g.freeGridSave()
                        if model['saved'] is None:
                            viol.append('not-refused:free')
                        model['saved'] = None
                except AssertionError:
                    legal = {'save': model['saved'] is None and savemem, 'restore': model['saved'] is not None,
                             'free': model['saved'] is not None}.get(op[0], True)
                    if legal:
                        viol.append('wrongly-refused:' + op[0])
                    after = (g.currentLayout, getattr(g, 'notSaved', None), g._dataIdx, g._buffIdx, g._saveIdx)
                    if after != before:
                        viol.append('refusal-changed-state:' + op[0])
                if g.currentLayout != model['lay']:
                    viol.append('layout-after:' + op[0])
                else:
                    l = g.getLayout(model['lay'])
                    f = g.getAllData()
                    if tuple(f.shape) != tuple(l.shape):
                        viol.append('shape-after:' + op[0])
                    elif ident(f, g, model['lay']) != model['data']:
                        viol.append('data-after:' + op[0])
            # what the save buffer REALLY holds (not what the model believes): a state reached through a refused operation that
            # touched the save is then a different state, and its futures (restore) are explored
            held = None
            if g.hasSaveMemory and not g.notSaved:
                sl_ = g.getLayout(g._savedLayout)
                held = (g._savedLayout, ident(np.asarray(g._my_data[g._saveIdx][:sl_.size]).reshape(sl_.shape), g, g._savedLayout))
            key = (g.currentLayout, getattr(g, 'notSaved', None), model['saved'], held, g._dataIdx, g._buffIdx, g._saveIdx, model['data'],
                   (man._managers.index(man._current_manager) if hasattr(man, '_current_manager') else 0))
            return key, viol
        return simmpi.World(size).run(fn)

    seen = {}
    frontier = collections.deque([()])
    trans = 0
    nontriv = 0
    vio = {}
    try:
        r0 = build(())
    except Exception as e:  # noqa
        sig = 'construct:' + type(e).__name__
        return {'evals': 1, 'nontrivial': 0, 'violations': [{'sig': sig, 'what': '%s: %s (%r)' % (type(e).__name__, e, case), 'detail': {}}], 'stats': {}, 'sample': None}
    seen[tuple(x[0] for x in r0)] = ()
    maxdepth = 0
    capped = 0
    while frontier:
        hist = frontier.popleft()
        for op in OPS:
            h2 = hist + (op,)
            trans += 1
            if op[0] in ('lay', 'save', 'restore', 'free'):
                nontriv += 1
            try:
                res = build(h2)
            except Exception as e:  # noqa
                sig = 'exception:' + type(e).__name__
                vio.setdefault(sig, {'sig': sig, 'what': 'history %s raised %s: %s (%s shape %r grid %r save=%s %s)' % (
                    _fmt(h2), type(e).__name__, e, case['kind'], shape, nprocs, savemem, case['dtype']), 'detail': {'history': h2}})
                continue
            for rnk, (k, viol) in enumerate(res):
                for v in viol:
                    sig = 'wrong:' + v
                    vio.setdefault(sig, {'sig': sig, 'what': 'after history %s on rank %d: %s (%s shape %r grid %r save=%s %s)' % (
                        _fmt(h2), rnk, v, case['kind'], shape, nprocs, savemem, case['dtype']), 'detail': {'history': h2}})
            key = tuple(x[0] for x in res)
            if key not in seen:
                seen[key] = h2
                maxdepth = max(maxdepth, len(h2))
                if len(seen) > 3000:
                    capped = 1
                    frontier.clear()
                    break
                frontier.append(h2)
        if len(vio) > 8:
            break
    return {'evals': trans, 'nontrivial': nontriv, 'violations': list(vio.values()),
            'stats': {'states': len(seen), 'transitions': trans, 'max_depth': maxdepth, 'capped': capped,
                      'configurations_closed': 0 if (capped or len(vio) > 8) else 1},
            'sample': {'states': len(seen), 'transitions': trans, 'deepest_history': _fmt(max(seen.values(), key=len))}}


def _fmt(h):
    return ' '.join(o[0] if len(o) == 1 else '%s(%s)' % o for o in h)
