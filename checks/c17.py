"""C17 Diagnostics and global reductions equal serial quadrature of the global field."""
import itertools

PROPERTY = 'C17'
LEVEL = 'exploration'
TIMEOUT_S = 900
RULE = ('process grids x the three 4-D layouts (and both 3-D layouts for phi) x fields {1 (analytic volume factor), unit impulse at every corner / '
        'centre class of the global index space (detects a wrong weight slice that a constant field hides), dense, complex dense for phi}; '
        'sum over ranks of l2 / l1 / nParticles / KineticEnergy vs serial trapezoid/rectangle quadrature of the global field; getMin/getMax with every '
        '(axis, fixValue) class at every drawing rank vs the global field; DiagnosticCollector.collect at t = k*dt over two save periods + reduce under '
        'every combination order of the reductions (<= 4 ranks) / arrival order otherwise: row (t//dt) % saveStep must hold t and the reduced values of '
        'that step; an evaluation is one (grid, layout, field, quantity); non-trivial = more than one rank and a non-constant field')
ASSUMPTIONS = ['simmpi reductions (combination order supplied by the check)', 'tolerance 1e-12 relative for sums, exact for min/max and time stamps']

NPTS = [7, 8, 11, 9]          # uneven blocks for 2 and 3 processes in r, z and v; n//2 differs between the three


def cases(tier, seed):
    out = []
    grids = [(1, 1), (2, 2), (3, 2), (1, 3), (2, 1)] if tier == 'quick' else [(1, 1), (2, 2), (3, 2), (1, 3), (2, 1), (6, 6), (3, 1), (2, 3), (1, 6), (6, 1)]
    for g in grids:
        for lay in ('v_parallel', 'flux_surface', 'poloidal'):
            out.append({'kind': 'norms', 'grid': list(g), 'layout': lay, 'cost': 10 * g[0] * g[1]})
        out.append({'kind': 'norms', 'grid': list(g), 'layout': 'poloidal' if g[0] % 2 else 'v_parallel', 'complex': True, 'cost': 10 * g[0] * g[1]})
        out.append({'kind': 'phi', 'grid': list(g), 'cost': 5 * g[0] * g[1]})
    for g in ([(1, 1), (1, 2), (2, 2), (1, 3)] if tier == 'quick' else [(1, 1), (1, 2), (2, 1), (2, 2), (1, 3), (3, 1), (1, 4)]):          # incl. the one-process world
        for save in (2, 3):
            out.append({'kind': 'collector', 'grid': list(g), 'save': save, 'cost': 60 * g[0] * g[1]})
    # global min/max with a plot-only rank (it owns an empty block and must not influence the result), drawing rank first/middle/last
    for size in ((3, 5) if tier == 'quick' else (2, 3, 4, 5, 7)):
        for draw in sorted(set([0, size // 2, size - 1])):
            out.append({'kind': 'plotminmax', 'size': size, 'draw': draw, 'cost': 10 * size})
    return out


def _plotminmax(case, V, st):
    import numpy as np
    from pgv import sim, simmpi
    MPI = sim.setup()
    from pygyro.initialisation.setups import setupCylindricalGrid
    size, draw = case['size'], case['draw']
    mm_cases = [(None, None), (0, 2), (3, 1), (2, 6), ([0, 3], [2, 1]), ([1, 2], [7, 0]), (1, 0), (0, 0), ([0], [0]), (np.int64(0), np.int64(0)), ([0, 1], [0, 0]), (0, 5), (3, 7), (2, 9), ([0, 3], [6, 8]), ([2, 0], [10, 4])]      # incl. falsy axis / index and indices in the later (longer) blocks
    I = np.indices(NPTS)
    # all values positive in one field and all negative in the other: a neutral element of the wrong sign would win
    FS = [('positive', 2.0 + np.sin(1 + I[0] * 1.3 + I[1] * 0.7 + I[2] * 2.1 + I[3] * 0.9)), ('negative', -3.0 + np.cos(2 + I[0] * 0.3 + I[1] * 1.7 + I[2] * 1.1 + I[3] * 0.4))]

    for _n, _F in FS:
        _F[tuple(n // 2 for n in NPTS)] -= 0.9          # global extremes at interior indices (no slice result coincides with the global one)
        _F[tuple((n // 2 + 1) % n for n in NPTS)] += 0.9

    def fn(r):
        comm = MPI.COMM_WORLD
        g, c, t = setupCylindricalGrid(layout='v_parallel', npts=list(NPTS), comm=comm, plotThread=True, drawRank=draw)
        out = []
        for lname in ('v_parallel', 'poloidal', 'flux_surface'):
            g.setLayout(lname)
            l = g.getLayout(lname)
            for name, F in FS:
                if r != draw:
                    sl = tuple(slice(int(a), int(b)) for a, b in zip(l.starts, l.ends))
                    g.getAllData()[:] = np.transpose(F, l.dims_order)[sl]
                for ax, fix in mm_cases:
                    if ax is None:
                        out.append((lname, name, ax, fix, g.getMin(draw), g.getMax(draw)))
                    else:
                        out.append((lname, name, ax, fix, g.getMin(draw, ax, fix), g.getMax(draw, ax, fix)))
        return out
    import io
    import sys
    old = sys.stdout
    sys.stdout = io.StringIO()
    try:
        res = simmpi.World(size).run(fn)
    finally:
        sys.stdout = old
    D = dict(FS)
    for k, (lname, name, ax, fix, mn, mx) in enumerate(res[draw]):
        if ax is None:
            sub = D[name]
        else:
            idx = [slice(None)] * 4
            for a, fx in zip(np.atleast_1d(ax), np.atleast_1d(fix)):
                idx[a] = fx
            sub = D[name][tuple(idx)]
        st['evals'] += 2
        st['nontrivial'] += 2
        if mn != sub.min() or mx != sub.max():
            V('minmax-differs:plot-only-rank', 'world of %d with plot-only rank %d, layout %s, field %s, axis %r fixValue %r: got (%r, %r) expected (%r, %r)' % (
                size, draw, lname, name, ax, fix, mn, mx, sub.min(), sub.max()))
        for other in range(size):
            if other != draw and (res[other][k][4] is not None or res[other][k][5] is not None):
                V('minmax-returned-on-non-drawing-rank', 'rank %d received a min/max meant for the plot-only rank %d' % (other, draw))


def _trapw(x):
    import numpy as np
    d = np.diff(x)
    return np.array([d[0] / 2, *((d[1:] + d[:-1]) / 2), d[-1] / 2])


def _fields(npts, cplx=False):
    import numpy as np
    I = np.indices(npts)
    F = [('one', np.ones(npts))]
    dense = np.sin(1 + sum(I[k] * a for k, a in enumerate((1.3, 0.7, 2.1, 0.9)[:len(npts)])))
    # global extremes at interior indices: no fixed-index slice of the min/max cases contains them, so a slice result can never
    # coincide with the whole-grid result
    dense[tuple(n // 2 for n in npts)] = -3.0
    dense[tuple((n // 2 + 1) % n for n in npts)] = 3.0
    F.append(('dense', dense))
    F.append(('tiny', 1e-20 * dense))          # nothing may be treated as zero by an absolute tolerance
    corners = list(itertools.product(*[(0, n - 1) for n in npts]))[::3] + [tuple(n // 2 for n in npts), tuple((n // 2 + 1) % n for n in npts)]
    for gi in corners:
        e = np.zeros(npts)
        e[gi] = -2.5
        F.append(('impulse%r' % (gi,), e))
    if cplx:
        F.append(('complex', dense * (1 + 0.5j) + 0.25j))
    return F


def _norms(case, V, st):
    import numpy as np
    from pgv import sim
    MPI = sim.setup()
    from pygyro.initialisation.setups import setupCylindricalGrid
    from pygyro.diagnostics.norms import l2, l1, nParticles
    from pygyro.diagnostics.energy import KineticEnergy
    lay = case['layout']
    grid = case['grid']
    size = grid[0] * grid[1]
    cplx = bool(case.get('complex'))
    fields = _fields(NPTS, cplx=cplx)
    if cplx:
        fields = [(n, F * (1 - 0.75j) if n != 'complex' else F) for n, F in fields]         # every field gets an imaginary part
    mm_cases = [(None, None), (0, 2), (3, 1), (2, 6), ([0, 3], [2, 1]), ([1, 2], [7, 0]), (1, 0), (0, 0), ([0], [0]), (np.int64(0), np.int64(0)), ([0, 1], [0, 0]), (0, 5), (3, 7), (2, 9), ([0, 3], [6, 8]), ([2, 0], [10, 4])]      # incl. falsy axis / index and indices in the later (longer) blocks

    def fn(r):
        g, c, t = setupCylindricalGrid(layout=lay, npts=list(NPTS), comm=MPI.COMM_WORLD, zMin=7.0, vMin=-6.1, rMin=0.3, dtype=(np.complex128 if cplx else float))
        l = g.getLayout(lay)
        sl = tuple(slice(int(a), int(b)) for a, b in zip(l.starts, l.ends))
        # the diagnostics take the coordinates separately from the Grid: give them r and v coordinates whose first and last
        # spacings differ (the Greville points of the setup are symmetric about the middle of the domain)
        e = [np.array(x, dtype=float) for x in g.eta_grid]
        e[0][1] += 0.11 * (e[0][2] - e[0][1])
        e[3][-2] -= 0.13 * (e[3][-1] - e[3][-2])
        objs = (l2(e, l), l1(e, l), nParticles(e, l), KineticEnergy(e, l))
        out = []
        for name, F in fields:
            g.getAllData()[:] = np.transpose(F, l.dims_order)[sl]
            vals = (objs[0].l2NormSquared(g), objs[1].l1Norm(g), objs[2].getN(g), objs[3].getKE(g))
            mm = []
            if name in ('dense', fields[3][0]):
                for draw in sorted(set([0, size - 1])):
                    for ax, fix in mm_cases:
                        if ax is None:
                            mm.append((draw, g.getMin(draw), g.getMax(draw)))
                        else:
                            mm.append((draw, g.getMin(draw, ax, fix), g.getMax(draw, ax, fix)))
            out.append((vals, mm))
        return out, [np.asarray(x) for x in e]
    res, _ = sim.run_world(grid, fn)
    e = res[0][1]
    wr = _trapw(e[0]) * e[0]
    wv = _trapw(e[3])
    dq = e[1][2] - e[1][1]
    dz = e[2][2] - e[2][1]
    Wt = wr[:, None, None, None] * wv[None, None, None, :] * dq * dz
    tag = 'grid %r layout %s' % (grid, lay)
    for k, (name, F) in enumerate(fields):
        tot = np.sum([r[0][k][0] for r in res], axis=0)
        Fr = np.real(F)
        ref = np.array([(np.abs(F) ** 2 * Wt).sum(), (np.abs(Fr) * Wt).sum(), (Fr * Wt).sum(), 0.5 * (Fr * Wt * e[3][None, None, None, :] ** 2).sum()])
        if name == 'one':
            vol = 0.5 * (e[0][-1] ** 2 - e[0][0] ** 2) * 0  # trapezoid of r is exact for linear integrand only on uniform grids; use the discrete reference
        for qi, qn in enumerate(('l2', 'l1', 'nParticles', 'KineticEnergy')):
            st['evals'] += 1
            if size > 1 and name != 'one':
                st['nontrivial'] += 1
            den = max(abs(ref[qi]), 1e-300)
            if not abs(tot[qi] - ref[qi]) <= 1e-12 * max(den, np.abs(F).max() ** 2 * 1e-3):
                V('sum-differs:%s%s' % (qn, ':complex-grid' if cplx else ''), '%s field %s: sum over ranks %.15g vs serial quadrature %.15g (%s)' % (qn, name, tot[qi], ref[qi], tag))
        mm0 = res[0][0][k][1]
        if mm0:
            j = 0
            for draw in sorted(set([0, size - 1])):
                for ax, fix in mm_cases:
                    got = res[draw][0][k][1][j]
                    j += 1
                    if ax is None:
                        sub = np.real(F)
                    else:
                        idx = [slice(None)] * 4
                        for a, fx in zip(np.atleast_1d(ax), np.atleast_1d(fix)):
                            idx[a] = fx
                        sub = np.real(F)[tuple(idx)]
                    st['evals'] += 2
                    if size > 1:
                        st['nontrivial'] += 2
                    if got[1] != sub.min() or got[2] != sub.max():
                        V('minmax-differs', 'field %s drawing rank %d axis %r fixValue %r: got (%r,%r) expected (%r,%r) (%s)' % (name, draw, ax, fix, got[1], got[2], sub.min(), sub.max(), tag))
                    for other in range(size):
                        if other != draw and size > 1:
                            o = res[other][0][k][1][j - 1]
                            if o[1] is not None or o[2] is not None:
                                V('minmax-returned-on-non-drawing-rank', 'rank %d received a min/max meant for drawing rank %d (%s)' % (other, draw, tag))


def _phi(case, V, st):
    import numpy as np
    from pgv import sim, lay as L
    MPI = sim.setup()
    from pygyro.model.layout import getLayoutHandler
    from pygyro.model.grid import Grid
    from pygyro.diagnostics.norms import l2
    from pygyro.splines.splines import make_knots, BSplines
    grid = case['grid']
    npts = NPTS[:3]
    fields = _fields(npts, cplx=True)
    r = np.linspace(0.1, 14.5, npts[0]) ** 1.0
    r[2] += 0.3                     # non-uniform radial grid
    r[1] += 0.2                     # first and last spacing differ
    eta = [r, np.linspace(0, 2 * np.pi, npts[1], endpoint=False), 3.0 + np.linspace(0, 10, npts[2], endpoint=False)]

    def fn(rk):
        h = getLayoutHandler(MPI.COMM_WORLD, {'v_parallel_2d': [0, 2, 1], 'mode_solve': [1, 2, 0]}, list(grid), eta)
        out = []
        for lname in ('v_parallel_2d', 'mode_solve'):
            g = Grid(eta, [None] * 3, h, lname, MPI.COMM_WORLD, dtype=np.complex128)
            l = g.getLayout(lname)
            sl = tuple(slice(int(a), int(b)) for a, b in zip(l.starts, l.ends))
            ob = l2(eta, l)
            for name, F in fields:
                g.getAllData()[:] = np.transpose(F, l.dims_order)[sl]
                out.append(ob.l2NormSquared(g))
        return out
    res, _ = sim.run_world(grid, fn)
    wr = _trapw(eta[0]) * eta[0]
    dq = eta[1][2] - eta[1][1]
    dz = eta[2][2] - eta[2][1]
    Wt = wr[:, None, None] * dq * dz
    k = 0
    for lname in ('v_parallel_2d', 'mode_solve'):
        for name, F in fields:
            tot = sum(r_[k] for r_ in res)
            k += 1
            ref = float((np.abs(F) ** 2 * Wt).sum())
            st['evals'] += 1
            if grid[0] * grid[1] > 1:
                st['nontrivial'] += 1
            if not abs(tot - ref) <= 1e-12 * max(abs(ref), 1e-3):
                V('sum-differs:l2-phi', 'l2 of phi field %s layout %s: %.15g vs %.15g (grid %r)' % (name, lname, tot, ref, grid))


def _collector(case, V, st):
    import numpy as np
    from pgv import sim, simmpi
    MPI = sim.setup()
    from pygyro.initialisation.setups import setupCylindricalGrid
    from pygyro.model.layout import getLayoutHandler
    from pygyro.model.grid import Grid
    from pygyro.diagnostics.diagnostic_collector import DiagnosticCollector
    grid = case['grid']
    size = grid[0] * grid[1]
    save = case['save']
    dense = _fields(NPTS)[1][1]
    dense3 = _fields(NPTS[:3], cplx=True)[-1][1]
    # times as a restarted run sees them: first collect at step save+1 (not a multiple of the save interval), consecutive steps,
    # then a repeated time and a jump
    KS = [save + 1, save + 2, save + 3, save + 4, save + 4, 2 * save + 5, 0, 1]

    def make_fn():
        def fn(r):
            comm = MPI.COMM_WORLD
            g, c, t = setupCylindricalGrid(layout='v_parallel', npts=list(NPTS), comm=comm, zMin=7.0, vMin=-6.1, rMin=0.3)
            l = g.getLayout('v_parallel')
            sl = tuple(slice(int(a), int(b)) for a, b in zip(l.starts, l.ends))
            np2 = l.nprocs[:2]
            h = getLayoutHandler(comm, {'v_parallel_2d': [0, 2, 1], 'mode_solve': [1, 2, 0]}, np2, g.eta_grid[:3])
            phi = Grid(g.eta_grid[:3], [None] * 3, h, 'v_parallel_2d', comm, dtype=np.complex128)
            lp = phi.getLayout('v_parallel_2d')
            slp = tuple(slice(int(a), int(b)) for a, b in zip(lp.starts, lp.ends))
            dc = DiagnosticCollector(comm, save, c.dt, g, phi)
            rows = []
            latest = {}
            for k in KS:
                tt = k * c.dt
                g.getAllData()[:] = np.transpose(dense * (1 + 0.1 * k) + 0.01 * k, l.dims_order)[sl]
                phi.getAllData()[:] = np.transpose(dense3 * (1 + 0.2 * k), lp.dims_order)[slp]
                dc.collect(g, phi, tt)
                dc.reduce()
                latest[k % save] = k
                # every slot filled so far is read after every reduce (a slot that was not collected again keeps its values)
                for i, k_ in sorted(latest.items()) if r == 0 else ():
                    rows.append((k_, i, (float(dc.diagnostics[0, i]), float(dc.l2PhiResult[i]), float(dc.l2GridResult[i]), float(dc.l1Result[i]), float(dc.nPartResult[i]),
                                        float(dc.min_val[i]), float(dc.max_val[i]), float(dc.KE_val[i]), dc.getLine(i))))
            return rows, [np.asarray(x) for x in g.eta_grid], c.dt
        return fn
    orders = [None]
    if size <= 4:
        orders = list(itertools.permutations(range(size)))
    ref_rows = None
    for perm in orders:
        red = None if perm is None else (lambda arrival, perm=perm: [p for p in perm if p in arrival])
        try:
            res, _ = sim.run_world(grid, make_fn(), red_order=red)
        except Exception as e:  # noqa
            V('collector-exception:' + type(e).__name__, '%s: %s (grid %r save %d)' % (type(e).__name__, e, grid, save))
            return
        rows, e, dt = res[0]
        wr = _trapw(e[0]) * e[0]
        wv = _trapw(e[3])
        dq = e[1][2] - e[1][1]
        dz = e[2][2] - e[2][1]
        Wt = wr[:, None, None, None] * wv[None, None, None, :] * dq * dz
        W3 = wr[:, None, None] * dq * dz
        for (k, i, row) in rows:
            if True:
                F = dense * (1 + 0.1 * k) + 0.01 * k
                P = dense3 * (1 + 0.2 * k)
                want = (k * dt, np.sqrt((np.abs(P) ** 2 * W3).sum()), np.sqrt((F * F * Wt).sum()), (np.abs(F) * Wt).sum(), (F * Wt).sum(), F.min(), F.max(),
                        0.5 * (F * Wt * e[3][None, None, None, :] ** 2).sum())
                st['evals'] += 8
                if size > 1:
                    st['nontrivial'] += 8
                names = ('time', 'l2phi', 'l2f', 'l1', 'nParticles', 'min', 'max', 'KE')
                for q in range(8):
                    exact = names[q] in ('time', 'min', 'max')
                    ok = (row[q] == want[q]) if exact else abs(row[q] - want[q]) <= 1e-12 * max(abs(want[q]), 1e-3)
                    if not ok:
                        V('collector-slot-differs:' + names[q], 'step %d (t=%g) stored in slot %d: %s = %.15g, expected %.15g (grid %r saveStep %d reduction order %r)' % (
                            k, k * dt, i, names[q], row[q], want[q], grid, save, perm))
                if ('%10g' % (k * dt)).strip() != row[8].split()[0]:
                    V('collector-line-time', 'getLine(%d) starts with %r for t=%g' % (i, row[8].split()[0], k * dt))
        if ref_rows is None:
            ref_rows = rows


def run_case(case):
    viols = {}
    st = {'evals': 0, 'nontrivial': 0}

    def V(sig, what):
        viols.setdefault(sig, {'sig': sig, 'what': what, 'detail': {}})
    try:
        if case['kind'] == 'norms':
            _norms(case, V, st)
        elif case['kind'] == 'phi':
            _phi(case, V, st)
        elif case['kind'] == 'plotminmax':
            _plotminmax(case, V, st)
        else:
            _collector(case, V, st)
    except Exception as e:  # noqa
        import traceback
        V('exception:' + type(e).__name__, '%s: %s (%r) %s' % (type(e).__name__, e, case, traceback.format_exc()[-400:]))
    return {'evals': st['evals'], 'nontrivial': st['nontrivial'], 'violations': list(viols.values()), 'stats': {},
            'sample': {'case': {k: v for k, v in case.items() if k != 'cost'}, 'comparisons': st['evals']}}
