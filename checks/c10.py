"""C10 Flux-surface advection is a field-aligned shift along z."""
import itertools

PROPERTY = 'C10'
LEVEL = 'exploration'
TIMEOUT_S = 1200
RULE = ('(n_theta,n_z) x theta spline path (uniform cubic, general degrees 2/3/5 incl. non-uniform theta breaks) x iota in {0, 0.8, 40 (theta shift wraps '
        'several times)} x displacement classes v*b_z*dt/dz in {0, +-1/4, +-1/2, +-1, +-2, +-3, +-3.5, 6, -11, 13, +-(nz+1/4)} for a dyadic and a non-dyadic dz through v and dt of both signs x every (rIdx,vIdx) '
        'of a 3x5 block; data = constant, two dense vectors, and for selected configurations every unit impulse (full operator matrix); oracle = independent '
        'implementation of the stated formula (product-formula Lagrange weights on the floor-centred 6-point stencil, exact-rational theta interpolation '
        'matrices, periodic wrap in theta and z); identities: constants preserved, commutation with cyclic z-shift, integer displacement without twist is a '
        'circular shift; grid-level clause: gridStep (twice) on 6 (quick) / 30 (thorough) process grids of a tight torus (several cells per step, r dependent b_z) against '
        'per-surface step() of a serial operator at the global (r, v) indices; an evaluation is one step() call compared at all nodes; non-trivial = non-zero displacement')
ASSUMPTIONS = ['pgv.refspline theta interpolation', 'tolerance 1e-12 * ||A^-1||_inf * max|f|', 'linearity in f (checked by impulses + dense data)']

SIZES = {'quick': [(4, 6), (5, 7), (8, 9)], 'thorough': [(4, 6), (5, 7), (8, 9), (4, 9), (8, 6), (5, 8)]}
SPACES = {'quick': [('cu', 3, None), ('nu', 2, [1, 2, 1.5]), ('nu', 3, [1, 1.7])],
          'thorough': [('cu', 3, None), ('nu', 2, [1, 2, 1.5]), ('nu', 3, [1, 1.7]), ('nu', 5, None), ('nu', 3, None), ('nu', 1, [1, 2])]}
IOTAS = [0.0, 0.8, 40.0]
VS = [-1.0, -0.5, 0.0, 0.5, 1.0]
CLASSES = [0.0, 0.25, -0.25, 1.0, -1.0, 2.0, -2.0, 3.0, -3.0, 3.5, -3.5, 6.0, -11.0, 13.0, 'wrap', '-wrap']
DZS = [0.5, 0.37]          # a dyadic and a non-dyadic cell size (k*dz inexact: whole-cell displacements must still be recognised)


def cases(tier, seed):
    out = []
    for (nq, nz), sp, iota, dz in itertools.product(SIZES[tier], SPACES[tier], IOTAS, DZS):
        if sp[0] == 'nu' and sp[1] > nq:
            continue
        if tier == 'quick' and dz != 0.5 and (sp[0] != 'cu' and (nq, nz) != (5, 7)):
            continue
        out.append({'nq': nq, 'nz': nz, 'space': list(sp), 'iota': iota, 'dz': dz, 'tier': tier, 'cost': nq * nz * 10})
    # grid-level clause: gridStep advects every (r, v) surface of the local block with the shifts of ITS radius and velocity
    grids = [[1, 1], [2, 1], [1, 2], [2, 2], [3, 2], [1, 3]] if tier == 'quick' else [[a, b] for a in range(1, 6) for b in range(1, 7) if a * b <= 12]
    for g in grids:
        out.append({'kind': 'grid', 'npts': [5, 6, 7, 6], 'grid': g, 'cost': 200 * g[0] * g[1]})
    return out


def _grid_case(case):
    import numpy as np
    from pgv import sim
    from checks import c05
    MPI = sim.setup()
    from pygyro.initialisation.setups import setupCylindricalGrid
    from pygyro.model.layout import Layout
    from pygyro.advection.advection import FluxSurfaceAdvection
    npts = case['npts']
    nprocs = case['grid']
    dt = 2.0

    def close(a, b):
        return a.shape == b.shape and sim.maxrel(a, b) <= 1e-13

    def fn(r):
        comm = MPI.COMM_WORLD
        viol = []
        # tight torus: several z cells per step and a strongly r dependent b_z
        f, c, t = setupCylindricalGrid(layout='flux_surface', npts=list(npts), comm=comm, iotaVal=0.8, eps=0.1, m=3, n=-2, vMin=-6.1,
                                       **dict(c05.GEN, R0=3.0, zMax=2 * np.pi * 3.0))
        eta = f.eta_grid
        l = f.getLayout('flux_surface')
        gi = sim.global_index_arrays(l)
        f.getAllData()[:] *= 1 + 0.3 * np.sin(1.0 + gi[0] * 1.3 + gi[1] * 0.7 + gi[2] * 2.1 + gi[3] * 0.9)
        spl = [f.getSpline(k) for k in range(4)]
        adv = FluxSurfaceAdvection(eta, [spl[1], spl[2]], l, dt, c)
        LS = Layout('flux_surface', [1, 1], [0, 3, 1, 2], eta, [0, 0])
        advS = FluxSurfaceAdvection(eta, [spl[1], spl[2]], LS, dt, c)
        n = 0
        for rep in (1, 2):
            before = f.getAllData().copy()
            adv.gridStep(f)
            ok = True
            for i in range(before.shape[0]):
                for j in range(before.shape[1]):
                    e = before[i, j].copy()
                    advS.step(e, int(l.starts[1]) + j, int(l.starts[0]) + i)
                    ok = ok and close(f.getAllData()[i, j], e)
                    n += 1
            if not ok:
                viol.append('grid-level:gridStep:surface-not-advected-with-the-shifts-of-its-own-radius-and-velocity')
        return n, viol
    res, _w = sim.run_world(nprocs, fn)
    viols = {}
    evals = 0
    for rk, (n, vl) in enumerate(res):
        evals += n
        for v in vl:
            viols.setdefault(v, {'sig': v, 'what': '%s on rank %d (npts %r process grid %r)' % (v, rk, npts, nprocs), 'detail': {}})
    return {'evals': evals, 'nontrivial': evals, 'violations': list(viols.values()), 'stats': {}, 'sample': {'grid': nprocs, 'surfaces': evals}}


def run_case(case):
    if case.get('kind') == 'grid':
        return _grid_case(case)
    import math
    import numpy as np
    from pgv import sim, ops, refspline
    sim.setup()
    from pygyro.model.layout import Layout
    from pygyro.advection.advection import FluxSurfaceAdvection
    from pygyro.initialisation.constants import Constants
    nq, nz = case['nq'], case['nz']
    kind, deg, warp = case['space']
    iota = case['iota']
    viols = {}

    def V(sig, what):
        viols.setdefault(sig, {'sig': sig, 'what': what, 'detail': {}})
    tag = 'ntheta=%d nz=%d dz=%g theta-spline=%s iota=%g' % (nq, nz, case['dz'], case['space'], iota)
    c = Constants()
    c.iotaVal = iota
    tp = 2 * math.pi
    dz = case['dz']
    # a torus whose circumference is the z period: the field line turns by 2*pi*iota/nz per cell
    c.R0 = nz * dz / tp * (1.7 if (nq + nz) % 2 else 1.0)          # full torus for half of the sizes, a z period unrelated to R0 for the others
    R0 = c.R0
    bth = ops.mkspace(nq, 0.0, tp, deg, True, kind == 'cu', warp)
    S = refspline.RefSpace(bth)
    cond = S.cond_inf()
    z = 0.3 + np.arange(nz) * dz            # zMin != 0
    rgrid = np.array([0.0, 0.25, 0.6])
    eta = [rgrid, np.asarray(bth.greville, dtype=float), z, np.array(VS)]
    # the operator tabulates its shifts for the (r, v) block of the Layout it is given: serial and distributed blocks
    variants = [([1, 1], [0, 0]), ([2, 2], [1, 1]), ([1, 3], [0, 2]), ([3, 1], [1, 0])]
    q = eta[1]
    I = np.indices((nq, nz)).astype(float)
    dense = [np.cos(1.3 * I[0] + 0.4) * (1 + 0.3 * I[1]) + 0.1 * I[1] ** 2, ((7 * I[0] * I[0] + 3 * I[1] + I[0] * I[1]) % 11) - 5.0]
    evals = nontriv = 0
    worst = 0.0
    for cls, (vp, vc) in itertools.product(CLASSES, variants):
        if vp != [1, 1] and cls not in (0.25, 3.0, '-wrap'):
            continue
        lay = Layout('flux_surface', vp, [0, 3, 1, 2], eta, vc)
        mag = (nz + 0.25) if cls in ('wrap', '-wrap') else abs(cls)
        dt = mag * dz * (-1.0 if (cls == '-wrap' or (cls not in ('wrap', '-wrap') and cls < 0)) else 1.0)
        try:
            adv = FluxSurfaceAdvection(eta, [bth, None], lay, dt, c)
        except Exception as e:  # noqa
            V('construct:' + type(e).__name__, '%s dt=%g: %s: %s' % (tag, dt, type(e).__name__, e))
            continue
        r0, v0 = int(lay.starts[0]), int(lay.starts[1])
        for rI, vI in itertools.product(range(int(lay.shape[0])), range(int(lay.shape[1]))):
            r, v = rgrid[r0 + rI], VS[v0 + vI]
            bz = 1.0 / math.sqrt(1 + (r * iota / R0) ** 2)
            dist = -v * bz * dt
            k0 = math.floor(dist / dz)
            sh = [k0 + j for j in range(-2, 4)]
            w = ops.lagrange_weights([a * dz for a in sh], dist)
            E = [ops.eval_matrix(S, ops.wrap(q + (dz * iota / R0) * a, 0.0, tp)) for a in sh]

            def ref(f):
                out = np.zeros_like(f)
                for zt in range(nz):
                    for a, wa, Ea in zip(sh, w, E):
                        out[:, zt] += wa * (Ea @ f[:, (zt + a) % nz])
                return out
            datas = [('const', np.full((nq, nz), 2.5))] + [('dense%d' % k, d) for k, d in enumerate(dense)] + [('tiny', 1e-20 * dense[0])]      # the step is linear in f
            full = cls in (0.25, '-wrap') and (r0 + rI, v0 + vI) in ((0, 4), (2, 1)) and vp == [1, 1]
            if full:
                for a, b in itertools.product(range(nq), range(nz)):
                    e = np.zeros((nq, nz))
                    e[a, b] = 1.0
                    datas.append(('impulse(%d,%d)' % (a, b), e))
            for name, f in datas:
                g = f.copy()
                evals += 1
                if dist != 0:
                    nontriv += 1
                try:
                    adv.step(g, vI, rI)
                except Exception as e:  # noqa
                    V('step-exception:' + type(e).__name__, '%s dt=%g r=%g v=%g data=%s: %s: %s' % (tag, dt, r, v, name, type(e).__name__, e))
                    break
                want = ref(f)
                tol = 1e-12 * cond * max(1e-300, np.abs(f).max()) * 6 * max(1.0, max(abs(x) for x in w))          # relative to the data
                err = np.abs(g - want).max()
                worst = max(worst, err / tol)
                if not err <= tol:
                    V('step-differs-from-formula' + (':impulse' if name.startswith('imp') else '') + ('' if vp == [1, 1] else ':distributed-layout'),
                      '%s dt=%g r=%g v=%g (displacement %.4g cells) layout block of rank %r on process grid %r data=%s: max error %.3g (tol %.3g)' % (
                          tag, dt, r, v, dist / dz, vc, vp, name, err, tol))
                if name == 'const' and not np.abs(g - 2.5).max() <= tol:
                    V('constant-not-preserved', '%s dt=%g r=%g v=%g: constant field changed by %.3g' % (tag, dt, r, v, np.abs(g - 2.5).max()))
                if name == 'dense0':
                    # commutation with the cyclic z shift
                    h = np.roll(f, 2, axis=1).copy()
                    adv.step(h, vI, rI)
                    evals += 1
                    if not np.abs(h - np.roll(g, 2, axis=1)).max() <= tol:
                        V('no-commutation-with-z-shift', '%s dt=%g r=%g v=%g: step(roll(f)) != roll(step(f)) by %.3g' % (tag, dt, r, v, np.abs(h - np.roll(g, 2, axis=1)).max()))
                    if iota == 0.0 and dist / dz == round(dist / dz):
                        k = int(round(dist / dz))
                        if not np.abs(g - np.roll(f, -k, axis=1)).max() <= tol:
                            V('integer-displacement-not-a-circular-shift', '%s dt=%g r=%g v=%g: displacement of %d cells is not np.roll (error %.3g)' % (
                                tag, dt, r, v, k, np.abs(g - np.roll(f, -k, axis=1)).max()))
    return {'evals': evals, 'nontrivial': nontriv, 'violations': list(viols.values()), 'stats': {'max_err_over_tol': worst},
            'sample': {'config': tag, 'steps': evals, 'worst_error_over_tolerance': worst}}
