"""C15 Quasi-neutrality pipeline: exact FFT round trip, real potential, equilibrium."""
import itertools

PROPERTY = 'C15'
LEVEL = 'exploration'
TIMEOUT_S = 1200
RULE = ('n_theta in {4,5,8,9} (even and odd: FFT ordering) x chi in {0,1} x adiabatic / kinetic electrons x radial spline path x default or caller-supplied profiles (n0 with n0deriv and Te, n0 with n0derivNormalised, n0deriv alone) x process grids (the pipeline '
        'changes layout twice); densities = unit impulse at every theta index of selected (r,z), every driver-like perturbation mode cos(m theta) incl. the '
        'highest resolved mode, dense, complex dense; oracle: getModes then findPotential is the identity; density -> modes -> per-mode solve -> inverse '
        'transform equals an independent implementation (numpy FFT ordering + the dense Galerkin reference of C14 with the m = 0 convention selected by chi, '
        'inner Neumann for m = 0); imaginary part <= 1e-13*|phi| for real density; equilibrium f gives rho == 0 and phi == 0 exactly; one complete driver '
        'step with eps = 0 leaves f within 1e-12 relative; an evaluation is one pipeline run compared in all points; non-trivial = every run (no trivial data)')
ASSUMPTIONS = ['dense Galerkin reference as in C14 (pgv.refspline)', 'numpy.fft as reference for the transform ordering', 'simmpi layouts']


def cases(tier, seed):
    out = []
    grids = [(1, 1), (2, 1), (1, 2), (2, 2), (3, 2)] if tier == 'quick' else [(1, 1), (2, 1), (1, 2), (2, 2), (3, 2), (2, 3), (4, 1), (1, 3), (5, 1)]
    for nq, (adiab, chi), path in itertools.product((4, 5, 8, 9), ((True, 0), (True, 1), (False, None)), ('cu', 'nu')):
        for g in grids:
            if tier == 'quick' and g not in ((1, 1), (2, 2)) and (nq, path) not in ((5, 'cu'), (8, 'nu')):
                continue
            out.append({'kind': 'pipeline', 'nq': nq, 'adiabatic': adiab, 'chi': chi, 'path': path, 'grid': list(g), 'cost': 10 * nq * g[0] * g[1]})
    # profiles supplied by the caller (density with its derivative, plain or normalised, and an electron temperature), in pairs
    for nq in ((5,) if tier == 'quick' else (5, 8)):
        for (adiab, chi) in ((True, 0), (True, 1), (False, None)):
            for prof in ('n0+n0deriv+Te', 'n0+n0derivNormalised', 'n0deriv-only'):
                for g in ((1, 1), (2, 2)):
                    out.append({'kind': 'pipeline', 'nq': nq, 'adiabatic': adiab, 'chi': chi, 'path': 'nu', 'grid': list(g), 'prof': prof, 'cost': 10 * nq * g[0] * g[1]})
    for g in ((1, 1), (2, 2)):
        out.append({'kind': 'equilibrium', 'grid': list(g), 'cost': 300})
    return out


def _pipeline(case):
    import math
    import numpy as np
    from numpy.polynomial.legendre import leggauss
    from pgv import sim, ops, refspline
    MPI = sim.setup()
    from pygyro.splines.splines import make_knots, BSplines
    from pygyro.model.layout import getLayoutHandler, LayoutSwapper
    from pygyro.model.grid import Grid
    from pygyro.poisson.poisson_solver import QuasiNeutralitySolver
    from pygyro.initialisation.constants import Constants
    from pygyro.initialisation import initialiser_funcs as init
    viols = {}

    def V(sig, what):
        viols.setdefault(sig, {'sig': sig, 'what': what, 'detail': {}})
    c = ops.generic_constants(Constants())
    nq, nr, nz = case['nq'], 7, 3
    grid = case['grid']
    adiab, chi = case['adiabatic'], case['chi']
    Bf = 1.0 if (adiab and chi == 0 and case.get('path') == 'cu') else 1.3          # equilibrium field strength: 1 (the default) only for one family
    prof = case.get('prof', 'default')
    tag = 'ntheta=%d adiabatic=%s chi=%r path=%s grid=%r profiles=%s' % (nq, adiab, chi, case['path'], grid, prof)
    n0c = lambda r: 2.0 + np.cos(0.9 * np.asarray(r, dtype=float))                  # noqa  (positive; unrelated to the default profile)
    n0cd = lambda r: -0.9 * np.sin(0.9 * np.asarray(r, dtype=float))                # noqa
    Tec = lambda r: 1.5 + 0.5 * np.sin(0.7 * np.asarray(r, dtype=float))           # noqa
    brs = ops.mkspace(nr, c.rMin, c.rMax, 3, False, case['path'] == 'cu')
    eta = [np.asarray(brs.greville, dtype=float), np.linspace(0, 2 * math.pi, nq, endpoint=False), np.linspace(0, 10, nz, endpoint=False)]
    I = np.indices((nr, nz, nq)).astype(float)          # v_parallel_2d ordering (r, z, theta)
    dens = []
    for (a, b) in ((0, 0), (nr - 1, nz - 1), (3, 1)):
        for k in range(nq):
            e = np.zeros((nr, nz, nq))
            e[a, b, k] = 1.0
            dens.append(('impulse(r%d,z%d,q%d)' % (a, b, k), e, True))
    for m in sorted(set([1, 2, (nq - 1) // 2, nq // 2])):
        dens.append(('cos(%d theta)' % m, np.exp(-0.1 * (I[0] - 3) ** 2) * np.cos(m * eta[1][None, None, :] + 0.3 * I[1]), True))
    dens.append(('dense', np.sin(1 + 1.3 * I[0] + 0.7 * I[1] + 2.1 * I[2]) + 0.2 * I[0], True))
    dens.append(('tiny', 1e-20 * (np.sin(1 + 1.3 * I[0] + 0.7 * I[1] + 2.1 * I[2]) + 0.2 * I[0]), True))      # the pipeline is linear in the density
    dens.append(('complex', (np.sin(1 + 1.3 * I[0] + 0.7 * I[1] + 2.1 * I[2]) * (1 + 0.5j) + 0.25j * I[2]), False))

    def fn(r):
        comm = MPI.COMM_WORLD
        lp = {'v_parallel_2d': [0, 2, 1], 'mode_solve': [1, 2, 0]}
        h = getLayoutHandler(comm, lp, list(grid), eta)
        sw = LayoutSwapper(comm, [lp, {'v_parallel_1d': [0, 2, 1]}, {'poloidal': [2, 1, 0]}], [list(grid), grid[0], grid[1]], eta, 'v_parallel_2d')
        rho = Grid(eta, [None] * 3, h, 'v_parallel_2d', comm, dtype=np.complex128)
        phi = Grid(eta, [None] * 3, sw, 'v_parallel_2d', comm, dtype=np.complex128)
        kw = {'chi': chi} if adiab else {}
        if prof == 'n0+n0deriv+Te':
            kw.update(n0=n0c, n0deriv=n0cd, Te=Tec)
        elif prof == 'n0+n0derivNormalised':
            kw.update(n0=n0c, n0derivNormalised=lambda r: n0cd(r) / n0c(r))
        elif prof == 'n0deriv-only':
            kw.update(n0deriv=n0cd)           # divided by the default density
        qn = QuasiNeutralitySolver(eta, 7, brs, c, adiabaticElectrons=adiab, B=Bf, **kw)
        l = rho.getLayout('v_parallel_2d')
        sl = tuple(slice(int(a), int(b)) for a, b in zip(l.starts, l.ends))
        out = []
        for name, D, real in dens:
            rho.getAllData()[:] = D[sl]
            qn.getModes(rho)
            modes = rho.getAllData().copy()
            # round trip on a copy held by phi
            phi.getAllData()[:] = modes
            qn.findPotential(phi)
            back = phi.getAllData().copy()
            rho.setLayout('mode_solve')
            phi.setLayout('mode_solve')
            qn.solveEquation(phi, rho)
            phi.setLayout('v_parallel_2d')
            rho.setLayout('v_parallel_2d')
            qn.findPotential(phi)
            out.append((modes, back, phi.getAllData().copy()))
        return sl, out
    try:
        res, _ = sim.run_world(grid, fn)
    except Exception as e:  # noqa
        V('pipeline-exception:' + type(e).__name__, '%s: %s (%s)' % (type(e).__name__, e, tag))
        return viols, 1
    # ---------------- reference
    S = refspline.RefSpace(BSplines(make_knots(np.asarray(brs.breaks, dtype=float), 3, False), 3, False, False))
    # profiles of the reference are coded independently of the library (pgv.ops)
    n0 = lambda r: ops.n0_ref(c, r)                      # noqa
    Te = lambda r: ops.te_ref(c, r)                      # noqa
    g_ = lambda r: ops.dlogn0_ref(c, r)                  # noqa
    if prof == 'n0+n0deriv+Te':
        n0, Te, g_ = n0c, Tec, (lambda r: n0cd(r) / n0c(r))
    elif prof == 'n0+n0derivNormalised':
        n0, g_ = n0c, (lambda r: n0cd(r) / n0c(r))
    elif prof == 'n0deriv-only':
        g_ = lambda r: n0cd(r) / ops.n0_ref(c, r)        # noqa
    pts, wts = leggauss(7 // 2 + 1)
    br = np.asarray(brs.breaks, dtype=float)
    nb = S.nc
    Kd = np.zeros((nb, nb))
    KC = np.zeros((nb, nb))
    KD = np.zeros((nb, nb))
    M = np.zeros((nb, nb))
    for a0, b0 in zip(br[:-1], br[1:]):
        for p, w in zip(pts, wts):
            x = (a0 + b0) / 2 + p * (b0 - a0) / 2
            ww = w * (b0 - a0) / 2
            Bv, Bd = S.row(x, 0), S.row(x, 1)
            Kd += ww * (np.outer(Bd * x + Bv, Bd) - (1 / x + g_(x)) * x * np.outer(Bv, Bd))
            if adiab:
                KC += ww * (Bf * Bf / Te(x)) * x * np.outer(Bv, Bv)
            KD += ww * (-1 / x ** 2) * x * np.outer(Bv, Bv)
            M += ww * (Bf * Bf / n0(x)) * x * np.outer(Bv, Bv)
    rows = np.array([S.row(x, 0) for x in eta[0]])
    mv = np.fft.fftfreq(nq, 1 / nq)
    evals = 0
    for k, (name, D, real) in enumerate(dens):
        evals += 1
        modes = np.full((nr, nz, nq), np.nan, dtype=complex)
        back = modes.copy()
        got = modes.copy()
        for sl, out in res:
            modes[sl], back[sl], got[sl] = out[k]
        wantm = np.fft.fft(D, axis=2)
        sc = max(1.0, np.abs(wantm).max())
        if not np.abs(modes - wantm).max() <= 1e-13 * sc * nq:
            V('modes-differ-from-fft', '%s density %s: getModes differs from the discrete Fourier transform by %.3g' % (tag, name, np.abs(modes - wantm).max()))
        if not np.abs(back - D).max() <= 1e-13 * max(1.0, np.abs(D).max()) * nq:
            V('fft-roundtrip-not-identity', '%s density %s: findPotential(getModes(rho)) differs from rho by %.3g' % (tag, name, np.abs(back - D).max()))
        ref = np.zeros((nr, nz, nq), dtype=complex)
        for Im, m in enumerate(mv):
            lo = 0 if m == 0 else 1
            hi = nb - 1
            K = Kd + (KC if not (m == 0 and adiab and chi == 1) else 0) - m * m * KD
            for j in range(nz):
                u = wantm[:, j, Im]
                cr = S.coeffs(u.real) + 1j * S.coeffs(u.imag)
                cc = np.zeros(nb, dtype=complex)
                cc[lo:hi] = np.linalg.solve(K[lo:hi, lo:hi], (M @ cr)[lo:hi])
                ref[:, j, Im] = rows @ cc
        ref = np.fft.ifft(ref, axis=2)
        scale = max(np.abs(ref).max(), 1e-300)
        err = np.abs(got - ref).max() / scale
        if not err <= 1e-10:
            V('potential-differs-from-reference', '%s density %s: relative error %.3g' % (tag, name, err))
        if real and not np.abs(got.imag).max() <= 1e-13 * max(np.abs(got).max(), 1e-300) * nq:
            V('potential-not-real', '%s density %s: |Im phi|/|phi| = %.3g' % (tag, name, np.abs(got.imag).max() / max(np.abs(got).max(), 1e-300)))
    return viols, evals


def _equilibrium(case):
    import os
    import numpy as np
    from pgv import sim, env, ops
    MPI = sim.setup()
    from pygyro.initialisation.setups import setupCylindricalGrid
    from pygyro.model.layout import getLayoutHandler
    from pygyro.model.grid import Grid
    from pygyro.poisson.poisson_solver import DensityFinder, QuasiNeutralitySolver
    viols = {}

    def V(sig, what):
        viols.setdefault(sig, {'sig': sig, 'what': what, 'detail': {}})
    grid = case['grid']
    npts = [6, 8, 7, 6]

    def fn(r):
        comm = MPI.COMM_WORLD
        f, c, t = setupCylindricalGrid(layout='v_parallel', npts=list(npts), comm=comm, eps=0.0, **ops.GENERIC)
        eta = f.eta_grid
        lp = {'v_parallel_2d': [0, 2, 1], 'mode_solve': [1, 2, 0]}
        np2 = f.getLayout('v_parallel').nprocs[:2]
        h = getLayoutHandler(comm, lp, np2, eta[:3])
        rho = Grid(eta[:3], [None] * 3, h, 'v_parallel_2d', comm, dtype=np.complex128)
        phi = Grid(eta[:3], [None] * 3, h, 'v_parallel_2d', comm, dtype=np.complex128)
        rho.getAllData()[:] = 7.0
        phi.getAllData()[:] = 7.0
        DensityFinder(6, f.getSpline(3), eta, c).getPerturbedRho(f, rho)
        a = float(np.abs(rho.getAllData()).max())
        qn = QuasiNeutralitySolver(eta[:3], 7, f.getSpline(0), c, chi=0)
        qn.getModes(rho)
        rho.setLayout('mode_solve')
        phi.setLayout('mode_solve')
        qn.solveEquation(phi, rho)
        phi.setLayout('v_parallel_2d')
        qn.findPotential(phi)
        return a, float(np.abs(phi.getAllData()).max())
    res, _ = sim.run_world(grid, fn)
    for a, b in res:
        if a != 0:
            V('equilibrium-density-not-zero', 'perturbed density of the unperturbed equilibrium is %r (grid %r)' % (a, grid))
        if b != 0:
            V('equilibrium-potential-not-zero', 'potential of the unperturbed equilibrium is %r (grid %r)' % (b, grid))
    d = env.scratch_dir('c15')
    try:
        sim.write_constants(os.path.join(d, 'c.json'), npts=npts, dt=2, iotaVal=0.8, eps=0.0, m=2, n=1, **ops.GENERIC)
        sim.run_driver(grid, d, 2, 1, 'E')
        cps = sim.read_checkpoints(os.path.join(d, 'E'))
        f0, f1 = cps['grid_000000.h5'][0], cps['grid_000002.h5'][0]
        e = float(np.abs(f1 - f0).max() / np.abs(f0).max())
        if not e <= 1e-12:
            V('equilibrium-not-a-fixed-point', 'one driver step with eps = 0 changes f by %.3g relative (grid %r)' % (e, grid))
        if not (np.abs(cps['phi_000002.h5'][0]).max() <= 1e-12):
            V('equilibrium-potential-not-zero', 'phi after one equilibrium step is %.3g (grid %r)' % (np.abs(cps['phi_000002.h5'][0]).max(), grid))
    finally:
        env.rm(d)
    return viols, 4


def run_case(case):
    viols, evals = _pipeline(case) if case['kind'] == 'pipeline' else _equilibrium(case)
    return {'evals': evals, 'nontrivial': evals, 'violations': list(viols.values()), 'stats': {},
            'sample': {'case': {k: v for k, v in case.items() if k != 'cost'}, 'runs': evals}}
