"""C20 Process-grid selection returns a valid factorisation or reports none exists.

Bounded-exhaustive enumeration of (max1, max2, size) boxes and of npts 4-tuples against a
brute-force divisor search; the returned grids are then used to build and connect the three
standard layouts on the simulated MPI world.
"""
import itertools

PROPERTY = 'C20'
LEVEL = 'exploration'
TIMEOUT_S = 300
RULE = ('every (max1,max2,size) of the stated box, every npts in the stated cube x size, a fixed lattice of '
        'large values; oracle = brute-force divisor enumeration (pair must multiply to size and respect both '
        'maxima; RuntimeError iff no pair exists); non-trivial = more than one admissible factorisation exists, '
        'or none exists; layouts: handler built on simmpi for every returned grid of the layout family; setups: setupCylindricalGrid and setupFromFile on simulated worlds of 1..10 (14) ranks, with and without a plot-only rank (first, middle, last), two starting layouts: RuntimeError on all data ranks iff no factorisation of the number of DATA ranks exists, else every layout is built on an admissible grid, partitions the index space with non-empty blocks and can be connected')
ASSUMPTIONS = ['simmpi Create_cart/Sub semantics (row-major ranks)',
               'termination is decided by a per-slab wall-clock limit (%d s for at most a few thousand calls)' % TIMEOUT_S]

BOX = {'quick': (48, 48, 128), 'thorough': (96, 96, 384)}
CUBE = {'quick': (5, 24), 'thorough': (6, 36)}
LATTICE = {
    'quick': [1, 2, 3, 4, 5, 7, 8, 9, 12, 16, 17, 31, 32, 33, 60, 64, 97, 120, 127, 128, 129, 240, 255, 256, 257, 360, 509, 512, 720, 1009, 1024],
    'thorough': sorted(set([1, 2, 3, 4, 5, 6, 7, 8, 9, 12, 15, 16, 17, 24, 31, 32, 33, 36, 48, 60, 63, 64, 65, 97, 120, 127, 128, 129, 180,
                            240, 255, 256, 257, 360, 509, 511, 512, 513, 720, 840, 1009, 1023, 1024, 1025, 1260, 1680, 2047, 2048, 2049,
                            2520, 4093, 4096, 5040, 8191, 8192, 10080, 16381, 16384, 20160, 32768, 65521, 65536, 83160, 99991, 100000])),
}
LAYOUT_NPTS = {'quick': [1, 2, 3, 4], 'thorough': [1, 2, 3, 4, 5, 6]}
LAYOUT_MAXSIZE = {'quick': 12, 'thorough': 16}


def cases(tier, seed):
    out = []
    m1, m2, p = BOX[tier]
    for a in range(1, m1 + 1):
        out.append({'kind': 'box', 'max1': a, 'max2_upto': m2, 'size_upto': p, 'cost': 3})
    n, s = CUBE[tier]
    for a in range(1, n + 1):
        out.append({'kind': 'cube', 'npts0': a, 'n_upto': n, 'size_upto': s, 'cost': 1})
    lat = LATTICE[tier]
    for a in lat:
        out.append({'kind': 'lattice', 'max1': a, 'tier': tier, 'cost': 4 if a < 2000 else 20})
    vals = LAYOUT_NPTS[tier]
    for a in vals:
        for d in vals:
            out.append({'kind': 'layouts', 'npts0': a, 'npts3': d, 'vals': vals, 'size_upto': LAYOUT_MAXSIZE[tier], 'cost': 10})
    # the two setup entry points (the callers of the selection): world sizes 1..P, with and without a plot-only rank
    for npts in ([4, 6, 3, 5], [5, 4, 6, 4]) if tier == 'quick' else ([4, 6, 3, 5], [5, 4, 6, 4], [4, 4, 7, 9], [6, 5, 4, 4]):
        for entry in ('setupCylindricalGrid', 'setupFromFile'):
            for plot in (False, True):
                out.append({'kind': 'setups', 'npts': npts, 'entry': entry, 'plot': plot, 'size_upto': 10 if tier == 'quick' else 14, 'cost': 60})
    return out


def _setups_case(case):
    import numpy as np
    from pgv import sim, simmpi, env
    MPI = sim.setup()
    import os
    from pygyro.initialisation.setups import setupCylindricalGrid, setupFromFile
    npts = case['npts']
    plot = case['plot']
    L = {'flux_surface': [0, 3, 1, 2], 'v_parallel': [0, 2, 1, 3], 'poloidal': [3, 2, 1, 0]}
    d = env.scratch_dir('c20setups')
    sim.write_constants(os.path.join(d, 'initParams.json'), npts=list(npts))
    viols = {}
    evals = nontriv = 0
    sample = None

    def V(sig, what):
        viols.setdefault(sig, {'sig': sig, 'what': what, 'detail': {}})
    try:
        for size in range(2 if plot else 1, case['size_upto'] + 1):
            ndata = size - 1 if plot else size
            adm = _admissible(min(npts[0], npts[3]), min(npts[2], npts[3]), ndata)
            for draw in (sorted(set([0, size // 2, size - 1])) if plot else [0]):
                for layout in (('v_parallel', 'poloidal') if case['entry'] == 'setupCylindricalGrid' else ('flux_surface', 'v_parallel')):
                    tag = '%s npts %r world %d plot rank %s layout %s' % (case['entry'], npts, size, draw if plot else None, layout)

                    def fn(r, draw=draw, layout=layout):
                        comm = MPI.COMM_WORLD
                        kw = dict(comm=comm, layout=layout)
                        if plot:
                            kw.update(plotThread=True, drawRank=draw)
                        try:
                            if case['entry'] == 'setupCylindricalGrid':
                                g, c, t = setupCylindricalGrid(npts=list(npts), **kw)
                            else:
                                g, c, t = setupFromFile(d, **kw)
                        except RuntimeError as e:
                            return ('RuntimeError', str(e))
                        if plot and r == draw:
                            return ('plot', None)
                        blocks = {}
                        for nm in L:
                            l = g.getLayout(nm)
                            blocks[nm] = (tuple(int(x) for x in l.nprocs[:2]), tuple(int(x) for x in l.starts), tuple(int(x) for x in l.ends))
                        g.setLayout('flux_surface')
                        g.setLayout(layout)
                        return ('ok', blocks)
                    evals += 1
                    if len(adm) != 1 or plot:
                        nontriv += 1
                    try:
                        import io
                        import sys
                        old = sys.stdout
                        sys.stdout = io.StringIO()
                        try:
                            res = simmpi.World(size).run(fn)
                        finally:
                            sys.stdout = old
                    except Exception as e:  # noqa
                        V('setup-exception:%s:%s' % (case['entry'], type(e).__name__), '%s: %s: %s (admissible process grids for %d data ranks: %r)' % (
                            tag, type(e).__name__, e, ndata, adm))
                        continue
                    data = [x for r, x in enumerate(res) if not (plot and r == draw)]
                    raised = [x[0] == 'RuntimeError' for x in data]
                    if any(raised) != all(raised):
                        V('setup-ranks-disagree', '%s: only some ranks raised RuntimeError' % tag)
                        continue
                    if all(raised):
                        if adm:
                            V('setup-refuses-although-a-factorisation-exists', '%s: RuntimeError although %r are admissible for %d data ranks' % (tag, adm, ndata))
                        continue
                    if not adm:
                        V('setup-accepts-although-no-factorisation-exists', '%s: no admissible grid for %d data ranks but the setup succeeded' % (tag, ndata))
                        continue
                    for nm, order in L.items():
                        cover = np.zeros([npts[k] for k in order], dtype=int)
                        for x in data:
                            gp, st, en = x[1][nm]
                            if gp[0] * gp[1] != ndata or gp not in adm:
                                V('setup-grid-not-a-valid-factorisation', '%s: layout %s built on process grid %r for %d data ranks (admissible %r)' % (tag, nm, gp, ndata, adm))
                            if min(e - s for s, e in zip(st, en)) < 1:
                                V('setup-empty-block', '%s: layout %s block %r..%r is empty' % (tag, nm, st, en))
                            cover[tuple(slice(a, b) for a, b in zip(st, en))] += 1
                        if not (cover == 1).all():
                            V('setup-layout-not-a-partition', '%s: layout %s: %d points owned by nobody, %d by several ranks' % (
                                tag, nm, int((cover == 0).sum()), int((cover > 1).sum())))
                    sample = {'entry': case['entry'], 'world': size, 'plot_rank': draw if plot else None, 'grid': list(data[0][1]['poloidal'][0])}
    finally:
        env.rm(d)
    return {'evals': evals, 'nontrivial': nontriv, 'violations': list(viols.values()), 'stats': {'setup_worlds': evals}, 'sample': sample}


def _admissible(max1, max2, size):
    res = []
    d = 1
    while d * d <= size:
        if size % d == 0:
            for n1 in {d, size // d}:
                n2 = size // n1
                if n1 <= max1 and n2 <= max2:
                    res.append((n1, n2))
        d += 1
    return res


def _check_one(f, args, max1, max2, size, viols, st):
    adm = _admissible(max1, max2, size)
    st['evals'] += 1
    if len(adm) != 1:
        st['nontrivial'] += 1
    try:
        got = f(*args)
    except RuntimeError:
        st['raised'] += 1
        if adm:
            viols.append({'sig': 'error-although-factorisation-exists', 'what': 'RuntimeError for %r although %r is admissible' % (args, adm[0]),
                          'detail': {'args': args, 'admissible': adm[:4]}})
        return None
    except Exception as e:  # noqa
        viols.append({'sig': 'exception:' + type(e).__name__, 'what': '%s for %r' % (e, args), 'detail': {'args': args}})
        return None
    try:
        import numbers
        n1, n2 = int(got[0]), int(got[1])
        # process counts are used as array extents and slice bounds: 2.0 == 2 is not good enough
        ok = (n1 == got[0] and n2 == got[1] and isinstance(got[0], numbers.Integral) and isinstance(got[1], numbers.Integral))
    except Exception:
        ok = False
        n1 = n2 = None
    if not ok:
        viols.append({'sig': 'not-a-pair-of-ints', 'what': 'returned %r for %r' % (got, args), 'detail': {'args': args}})
        return None
    if not adm:
        viols.append({'sig': 'no-error-although-impossible', 'what': 'returned %r for %r but no factorisation fits' % (got, args),
                      'detail': {'args': args, 'got': [n1, n2]}})
    elif n1 * n2 != size:
        viols.append({'sig': 'product-differs-from-size', 'what': 'returned %r for %r: product is not the process count' % (got, args),
                      'detail': {'args': args, 'got': [n1, n2]}})
    elif n1 < 1 or n2 < 1 or n1 > max1 or n2 > max2:
        viols.append({'sig': 'exceeds-maximum', 'what': 'returned %r for %r: a process would own no point' % (got, args),
                      'detail': {'args': args, 'got': [n1, n2]}})
    return (n1, n2)


def run_case(case):
    from pygyro.model.process_grid import compute_2d_process_grid, compute_2d_process_grid_from_max
    viols = []
    st = {'evals': 0, 'nontrivial': 0, 'raised': 0}
    sample = None
    if case['kind'] == 'box':
        a = case['max1']
        for b in range(1, case['max2_upto'] + 1):
            for p in range(1, case['size_upto'] + 1):
                r = _check_one(compute_2d_process_grid_from_max, (a, b, p), a, b, p, viols, st)
                if len(viols) > 20:
                    break
        sample = {'args': [a, case['max2_upto'], case['size_upto']], 'returned': r}
    elif case['kind'] == 'cube':
        n = case['n_upto']
        for b, c, d in itertools.product(range(1, n + 1), repeat=3):
            npts = [case['npts0'], b, c, d]
            for p in range(1, case['size_upto'] + 1):
                r = _check_one(compute_2d_process_grid, (npts, p), min(npts[0], npts[3]), min(npts[2], npts[3]), p, viols, st)
            if len(viols) > 20:
                break
        sample = {'args': [npts, p], 'returned': r}
    elif case['kind'] == 'lattice':
        lat = LATTICE[case['tier']]
        a = case['max1']
        for b in lat:
            for p in lat:
                r = _check_one(compute_2d_process_grid_from_max, (a, b, p), a, b, p, viols, st)
            if len(viols) > 20:
                break
        sample = {'args': [a, b, p], 'returned': r}
    elif case['kind'] == 'setups':
        return _setups_case(case)
    else:
        return _layouts_case(case)
    return {'evals': st['evals'], 'nontrivial': st['nontrivial'], 'violations': viols[:5],
            'stats': {'raised_RuntimeError': st['raised']}, 'sample': sample}


def _layouts_case(case):
    import numpy as np
    from pgv import simmpi
    from pygyro.model.process_grid import compute_2d_process_grid
    from pygyro.model.layout import getLayoutHandler
    MPI = simmpi.install()
    L = {'flux_surface': [0, 3, 1, 2], 'v_parallel': [0, 2, 1, 3], 'poloidal': [3, 2, 1, 0]}
    viols = []
    evals = 0
    nontriv = 0
    worlds = 0
    sample = None
    for b, c in itertools.product(case['vals'], repeat=2):
        npts = [case['npts0'], b, c, case['npts3']]
        seen = set()
        for size in range(1, case['size_upto'] + 1):
            try:
                g = compute_2d_process_grid(npts, size)
            except RuntimeError:
                continue
            g = (int(g[0]), int(g[1]))
            evals += 1
            if g in seen or g[0] * g[1] != size:
                continue
            seen.add(g)
            eta = [np.arange(n, dtype=float) for n in npts]
            G = np.arange(int(np.prod(npts)), dtype=float).reshape(npts) + 1

            def fn(r, g=g, eta=eta, G=G):
                h = getLayoutHandler(MPI.COMM_WORLD, L, list(g), eta)
                bad = []
                for name in L:
                    lay = h.getLayout(name)
                    if min(lay.shape) < 1:
                        bad.append(('empty-block', name, tuple(int(x) for x in lay.shape)))
                cur = 'flux_surface'
                la = h.getLayout(cur)
                a = np.full(h.bufferSize, np.nan)
                bb = np.full(h.bufferSize, np.nan)
                sl = tuple(slice(x, y) for x, y in zip(la.starts, la.ends))
                a[:la.size] = np.transpose(G, la.dims_order)[sl].ravel()
                for nxt in ('v_parallel', 'poloidal', 'flux_surface'):
                    h.transpose(a, bb, cur, nxt)
                    a, bb = bb, a
                    bb[:] = np.nan
                    lb = h.getLayout(nxt)
                    sl = tuple(slice(x, y) for x, y in zip(lb.starts, lb.ends))
                    if not np.array_equal(a[:lb.size].reshape(lb.shape), np.transpose(G, lb.dims_order)[sl]):
                        bad.append(('data', cur, nxt))
                    cur = nxt
                return bad
            worlds += 1
            if size > 1:
                nontriv += 1
            try:
                res = simmpi.World(size).run(fn)
                for r, bad in enumerate(res):
                    for x in bad:
                        if x[0] == 'empty-block':
                            viols.append({'sig': 'layout-empty-block', 'what': 'npts %r size %d grid %r rank %d: %r' % (npts, size, g, r, x), 'detail': {}})
                        else:
                            viols.append({'sig': 'layouts-not-usable:data', 'what': 'npts %r size %d grid %r rank %d: %r' % (npts, size, g, r, x), 'detail': {}})
            except Exception as e:  # noqa
                sig = 'layouts-not-usable:' + type(e).__name__
                if isinstance(e, ValueError) and g[0] == 1 and g[1] > 1:
                    sig = 'transpose-axis0-on-1xn-grid'
                viols.append({'sig': sig, 'what': 'npts %r size %d grid %r: %s: %s' % (npts, size, g, type(e).__name__, e), 'detail': {}})
            sample = {'npts': npts, 'size': size, 'grid': g}
    # deduplicate
    seen = {}
    for v in viols:
        seen.setdefault(v['sig'], v)
    return {'evals': evals, 'nontrivial': nontriv, 'violations': list(seen.values()),
            'stats': {'layout_worlds': worlds}, 'sample': sample}
