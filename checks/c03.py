"""C03 Redistribution across differently distributed layout groups preserves data.

Explicit-state exploration of the real LayoutSwapper: state = (current layout, current
manager, live data); transitions = transpose to any layout (with / without buffer).  All
length-3 layout sequences a->b->c are executed as one continuous history per world with all
dead buffer regions poisoned between steps; every step is compared with the global-array
reference model.
"""
import itertools

PROPERTY = 'C03'
LEVEL = 'model_checking'
TIMEOUT_S = 900
RULE = ('configurations = (grouping of layouts into handlers, 3-D/4-D shape, 2-D process grid, dtype, buffer given/not); in each, every '
        'ordered triple (a,b,c) of layouts is executed as consecutive transposes on one LayoutSwapper per simulated rank (dead buffer '
        'regions poisoned before every step), and in mode `fork` every (a,b,c) as a->b with buffer followed by a->c from the intact source (the second call does not start where the previous one ended: two fields sharing one swapper); a state is (configuration, current layout), a transition is one transpose; oracle per '
        'transition: destination block == slice of the global array, source intact when a buffer is given, nProcs/mpiCoords/'
        'nDistributedDirections are those of the destination group; non-trivial = transition between different handler groups')
ASSUMPTIONS = ['simmpi Allgather/Alltoall/Create_cart/Sub semantics incl. explicit MPI.DOUBLE byte counts',
               'dead buffer content is arbitrary (represented by NaN / min-int poison)']

LP = {'v_parallel_2d': [0, 2, 1], 'mode_solve': [1, 2, 0]}
LV = {'v_parallel_1d': [0, 2, 1]}
LPOL = {'poloidal': [2, 1, 0]}
LPOL2 = {'poloidal': [2, 1, 0], 'poloidalTwist': [2, 0, 1]}
L4A = {'flux_surface2': [0, 3, 1, 2], 'v_parallel': [0, 2, 1, 3], 'poloidal': [3, 2, 1, 0]}
L4B = {'flux_surface1': [0, 3, 1, 2], 'z_surface': [2, 3, 1, 0], 'vr_contig1': [2, 1, 3, 0]}

GROUPINGS = {
    # name: (groups, nprocs-spec as indices into (p1,p2): 'g' = [p1,p2], 0 = p1, 1 = p2, 'one' = 1)
    'driver': ([LP, LV, LPOL], ['g', 0, 1]),
    'driver_perm1': ([LV, LP, LPOL], [0, 'g', 1]),
    'driver_perm2': ([LPOL, LV, LP], [1, 0, 'g']),
    'upstream3': ([LP, LPOL2, LV], ['g', 1, 0]),
    'upstream4': ([L4A, L4B], ['g', 0]),
    'two_only': ([LP, LV], ['g', 0]),
    'replicated': ([LP, LV, {'serial': [0, 1, 2]}], ['g', 0, 'one']),
    # replicated layout with the SAME dimension order as the 1-D layout it is gathered from (a gather that could be mistaken for a plain copy)
    'replicated_same_order': ([LP, LV, {'everything': [0, 2, 1]}], ['g', 0, 'one']),
    'replicated_none_same_order': ([LP, LV, {'everything': [0, 2, 1]}], ['g', 0, 'none']),          # nprocs = []: not distributed at all
    'replicated_none': ([LP, LV, {'serial': [0, 1, 2]}], ['g', 0, 'none']),
}


# other definitions of the SAME layout names (a second manager of the same process, e.g. a 3-D potential next to another 3-D field, or
# two test set-ups in one interpreter): used before the explored swapper is built, so that nothing a manager remembers may be keyed by
# layout names alone
ALIASES = {
    'driver': [{'v_parallel_2d': [1, 2, 0], 'mode_solve': [0, 2, 1]}, {'v_parallel_1d': [0, 2, 1]}, {'poloidal': [2, 1, 0]}],
    'upstream4': [{'flux_surface2': [0, 2, 1, 3], 'v_parallel': [0, 3, 1, 2], 'poloidal': [3, 2, 1, 0]}, L4B],
}


def cases(tier, seed):
    out = []
    rng = (1, 2, 3) if tier == 'quick' else (1, 2, 3, 4)
    # incl. lopsided shapes (one extent much longer than the others: gather/scatter buffers dominate)
    shapes3 = [[5, 6, 7], [4, 4, 4], [3, 5, 4], [13, 3, 4], [3, 4, 13]] if tier == 'quick' else [[5, 6, 7], [4, 4, 4], [3, 5, 4], [7, 5, 9], [4, 8, 5], [6, 6, 5], [13, 3, 4], [3, 4, 13], [3, 13, 3], [4, 17, 5]]
    shapes4 = [[4, 5, 7, 6], [3, 4, 5, 4], [3, 4, 13, 3]] if tier == 'quick' else [[4, 5, 7, 6], [3, 4, 5, 4], [5, 3, 4, 7], [4, 4, 4, 4], [3, 4, 13, 3], [13, 3, 4, 4]]
    for gname, (groups, spec) in GROUPINGS.items():
        d = len(next(iter(groups[0].values())))
        for shape in (shapes3 if d == 3 else shapes4):
            for p1 in rng:
                for p2 in rng:
                    if p1 * p2 > 16:
                        continue
                    # every distributed block must be non-empty
                    ok = True
                    for grp, sp in zip(groups, spec):
                        npr = [p1, p2] if sp == 'g' else ([p1] if sp == 0 else ([p2] if sp == 1 else [1]))
                        for order in grp.values():
                            for pos, n in enumerate(npr):
                                if shape[order[pos]] < n:
                                    ok = False
                    if not ok:
                        continue
                    for dtype in ('float64', 'complex128'):
                        for buf in (False, True):
                            nl = sum(len(g) for g in groups)
                            out.append({'grouping': gname, 'shape': shape, 'p': [p1, p2], 'dtype': dtype, 'buf': buf, 'mode': 'walk',
                                        'cost': nl ** 3 * p1 * p2})
                        if shape in (shapes3[0], shapes3[3], shapes4[0]):
                            out.append({'grouping': gname, 'shape': shape, 'p': [p1, p2], 'dtype': dtype, 'buf': True, 'mode': 'fork',
                                        'cost': nl ** 3 * p1 * p2})
    return out


def run_case(case):
    import numpy as np
    from pgv import simmpi, lay
    from pygyro.model.layout import LayoutSwapper
    MPI = simmpi.install()
    groups, spec = GROUPINGS[case['grouping']]
    p1, p2 = case['p']
    nprocs = [[p1, p2] if sp == 'g' else (p1 if sp == 0 else (p2 if sp == 1 else ([] if sp == 'none' else 1))) for sp in spec]
    shape = case['shape']
    size = p1 * p2
    dtype = lay.DTYPES[case['dtype']]
    G = lay.global_array(shape, dtype)
    if case['mode'] == 'fork':
        G = lay.zero_bands(G)          # fork-mode cases move a field with exactly-zero bands (value-dependent shortcuts)
    eta = lay.eta_for(shape)
    names = [n for g in groups for n in g]
    group_of = {n: i for i, g in enumerate(groups) for n in g}
    P = lay.poison_value(dtype)
    usebuf = case['buf']
    triples = list(itertools.product(names, repeat=3))
    start = names[0]

    def make_ctx(r, grps=None):
        s = LayoutSwapper(MPI.COMM_WORLD, [dict(g) for g in (grps or groups)], [list(n) if isinstance(n, list) else n for n in nprocs], eta, start)
        n = s.bufferSize
        bufs = [np.full(n, P, dtype=dtype) for _ in range(3)]
        la = s.getLayout(start)
        bufs[0][:la.size] = lay.block(G, la).ravel()
        return {'s': s, 'bufs': bufs, 'cur': 0, 'lay': start, 'steps': 0, 'cross': 0}

    def step(ctx, b, probs):
        s = ctx['s']
        bufs = ctx['bufs']
        a = ctx['lay']
        cur = ctx['cur']
        dst = (cur + 1) % 3
        sp = (cur + 2) % 3
        la, lb = s.getLayout(a), s.getLayout(b)
        # poison everything dead
        bufs[cur][la.size:] = P
        bufs[dst][:] = P
        bufs[sp][:] = P
        blk = lay.block(G, la)
        s.transpose(bufs[cur], bufs[dst], a, b, bufs[sp] if usebuf else None)
        ctx['steps'] += 1
        if group_of[a] != group_of[b]:
            ctx['cross'] += 1
        if not lay.same(bufs[dst][:lb.size].reshape(lb.shape), lay.block(G, lb)):
            probs.append('dest(%s->%s)' % (a, b))
        if usebuf and not lay.same(bufs[cur][:la.size].reshape(la.shape), blk):
            probs.append('source-not-intact(%s->%s)' % (a, b))
        man = s._managers[s._handlers[b]]
        cfg = nprocs[group_of[b]]
        cfg = list(cfg) if isinstance(cfg, list) else [cfg]
        got = [int(x) for x in np.atleast_1d(s.nProcs)]
        while len(got) > len(cfg) and got[-1] == 1:
            got.pop()
        if got != cfg:
            probs.append('nProcs-after(%s)' % b)
        if s.nDistributedDirections != len(cfg) - cfg.count(1):
            probs.append('nDistributedDirections-after(%s)' % b)
        mc = list(s.mpiCoords)
        if [int(x) for x in mc] != [int(x) for x in lb.ranks[:len(mc)]]:
            probs.append('mpiCoords-after(%s)' % b)
        if s._current_manager is not man:
            probs.append('current-manager-after(%s)' % b)
        ctx['cur'] = dst
        ctx['lay'] = b

    def fork(ctx, a, b, c, probs):
        """a->b with a spare buffer (source stays intact), then the SAME intact source a->c: the second call starts
        from a layout other than the one where the swapper's previous call ended (two fields sharing one swapper)"""
        s = ctx['s']
        bufs = ctx['bufs']
        cur = ctx['cur']
        dst = (cur + 1) % 3
        sp = (cur + 2) % 3
        la, lb, lc = s.getLayout(a), s.getLayout(b), s.getLayout(c)
        bufs[cur][la.size:] = P
        bufs[dst][:] = P
        bufs[sp][:] = P
        s.transpose(bufs[cur], bufs[dst], a, b, bufs[sp])
        ctx['steps'] += 1
        if not lay.same(bufs[dst][:lb.size].reshape(lb.shape), lay.block(G, lb)):
            probs.append('dest(%s->%s)' % (a, b))
        if not lay.same(bufs[cur][:la.size].reshape(la.shape), lay.block(G, la)):
            probs.append('source-not-intact(%s->%s)' % (a, b))
            bufs[cur][:la.size] = lay.block(G, la).ravel()
        bufs[cur][la.size:] = P
        bufs[sp][:] = P
        s.transpose(bufs[cur], bufs[sp], a, c, None)
        ctx['steps'] += 1
        if group_of[a] != group_of[c]:
            ctx['cross'] += 1
        if not lay.same(bufs[sp][:lc.size].reshape(lc.shape), lay.block(G, lc)):
            probs.append('dest-after-fork(%s->%s,then %s->%s)' % (a, b, a, c))
        ctx['cur'] = sp
        ctx['lay'] = c

    def do_item(ctx, tr):
        probs = []
        if ctx['lay'] != tr[0]:
            step(ctx, tr[0], probs)
        if case.get('mode') == 'fork':
            fork(ctx, tr[0], tr[1], tr[2], probs)
        else:
            step(ctx, tr[1], probs)
            step(ctx, tr[2], probs)
        return probs

    counters = {'steps': 0, 'cross': 0}

    def make_ctx_counted(r):
        c = make_ctx(r)
        if r == 0:
            counters['ctx'] = c
        return c

    alias_viol = []
    alias_steps = 0
    if case['grouping'] in ALIASES and case['mode'] == 'walk':
        # a manager with other orderings under the same names does every direct move (and is itself checked) before the explored one exists
        al = ALIASES[case['grouping']]
        pairs = [(a, b, a) for a in names for b in names if a != b]
        ares, aerr, _ = lay.run_items(size, lambda r: make_ctx(r, al), pairs, do_item)
        if aerr is None:
            for i, tr in enumerate(pairs):
                res = ares.get(i, {'problems': ['missing'], 'exc': None})
                alias_steps += 2
                if res.get('exc'):
                    alias_viol.append({'sig': 'alias-manager:exception:' + res.get('exc_type', '?'), 'what': 'manager with other orderings under the same names: sequence %s raised %s (%s shape %r grid %r)' % ('->'.join(tr), res['exc'], case['grouping'], shape, case['p']), 'detail': {}})
                for pb in sorted(set(res.get('problems', []))):
                    alias_viol.append({'sig': 'alias-manager:wrong:' + pb.split('(')[0], 'what': 'manager with other orderings under the same names: sequence %s: %s (%s shape %r grid %r)' % ('->'.join(tr), pb, case['grouping'], shape, case['p']), 'detail': {}})
    results, cerr, nworlds = lay.run_items(size, make_ctx_counted, triples, do_item)
    stats = {'worlds': nworlds, 'rejected_groupings': 0, 'states': 0, 'transitions': 0, 'alias_manager_moves': alias_steps}
    if cerr is not None:
        if 'could not be connected' in cerr or cerr.startswith('AssertionError'):
            stats['rejected_groupings'] = 1
            return {'evals': 1, 'nontrivial': 0, 'violations': [], 'stats': stats, 'sample': {'rejected': cerr}}
        sig = 'construct:' + cerr.split(':')[0]
        return {'evals': 1, 'nontrivial': 0, 'violations': [{'sig': sig, 'what': 'LayoutSwapper construction failed: %s (%r)' % (cerr, case), 'detail': {}}],
                'stats': stats, 'sample': None}
    seen = {}
    for v in alias_viol:
        seen.setdefault(v['sig'], v)
    for i, tr in enumerate(triples):
        res = results.get(i, {'problems': ['missing'], 'exc': None})
        if res.get('skipped'):
            continue
        if res['exc']:
            sig = 'exception:' + res.get('exc_type', '?')
            seen.setdefault(sig, {'sig': sig, 'what': 'sequence %s raised %s (%s shape %r grid %r %s buf=%s)' % ('->'.join(tr), res['exc'], case['grouping'], shape, case['p'], case['dtype'], usebuf), 'detail': {'triple': tr}})
        for p in sorted(set(res['problems'])):
            kind = p.split('(')[0]
            sig = 'wrong:' + kind
            seen.setdefault(sig, {'sig': sig, 'what': 'sequence %s: %s (%s shape %r grid %r %s buf=%s)' % ('->'.join(tr), p, case['grouping'], shape, case['p'], case['dtype'], usebuf), 'detail': {'triple': tr}})
    ctx = counters.get('ctx', {'steps': 0, 'cross': 0})
    stats['states'] = len(names)
    stats['transitions'] = ctx['steps']
    return {'evals': ctx['steps'], 'nontrivial': ctx['cross'], 'violations': list(seen.values()), 'stats': stats,
            'sample': {'layouts': names, 'triples': len(triples), 'first_triple': triples[1]}}
