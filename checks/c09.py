"""C09 Spline quadrature weights integrate the interpolant exactly."""

PROPERTY = 'C09'
LEVEL = 'exploration'
TIMEOUT_S = 1200
RULE = ('same structural lattice of 1-D spaces as C07/C08; oracle = exact integrals over the domain of every basis function (open '
        'Newton-Cotes in Fractions) and exact weights w = A^-T I; compared with BSplines.integrals (periodic spaces after folding the '
        'wrapped duplicates, both storage conventions accepted) and get_quadrature_coefficients(), called twice on the same space '
        '(state kept between calls) and on a fresh interpolator; the first returned array is kept (not copied) and re-checked after the same interpolator computed two interpolants; sum(w)=b-a; all weights equal on uniform periodic spaces; w.u = exact '
        'integral of the interpolant for every unit vector u; an evaluation is one (space, quantity); non-trivial = non-uniform, '
        'periodic or fast-path space')
ASSUMPTIONS = ['tolerance 64*eps*||A^-1||_inf*(d+1)*(b-a)', 'periodic integrals are compared after folding integrals[k]+integrals[n+k]']

EPS = 2.220446049250313e-16


def cases(tier, seed):
    from pgv import splat
    out = []
    descs = splat.space_descs(tier)
    chunk = 8
    for i in range(0, len(descs), chunk):
        out.append({'descs': descs[i:i + chunk], 'tier': tier, 'cost': sum(len(d['widths']) ** 2 for d in descs[i:i + chunk])})
    # different spaces with the same number of basis functions on the same domain, requested one after the other in one
    # process (anything cached per process must be keyed by the whole space)
    def D(d, per, nc, flag):
        return {'degree': d, 'periodic': per, 'widths': [1] * nc, 'flag': flag, 'scale': 1.0 / nc, 'offset': 0.0}
    for m in (3, 4, 6):
        for d in (3, 2):
            a, b = D(d, True, m + d, d == 3), D(d, False, m, d == 3)
            out.append({'descs': [a, b, a, b], 'tier': tier, 'cost': 10})
            out.append({'descs': [b, a, b], 'tier': tier, 'cost': 10})
    return out


def _classify(desc):
    per = desc['periodic']
    cu = desc['flag'] and desc['degree'] == 3
    uni = len(set(desc['widths'])) == 1
    nc = len(desc['widths'])
    if cu and not per and nc < 3:
        return 'cu-clamped-fewer-than-3-cells'
    if per and not uni and not cu:
        return 'periodic-nonuniform'
    return '%s-%s-%s' % ('per' if per else 'cl', 'cu' if cu else 'general', 'uniform' if uni else 'nonuniform')


def _check(desc, tier, V, st):
    import numpy as np
    from pgv import splat, refspline
    from pygyro.splines.spline_interpolators import SplineInterpolator1D
    key = splat.space_key(desc)
    cls = _classify(desc)
    try:
        bs = splat.make_space(desc)
        itp = SplineInterpolator1D(bs)
    except Exception as e:  # noqa
        V('construct:%s:%s' % (cls, type(e).__name__), '%s: %s: %s' % (key, type(e).__name__, e))
        return
    S = refspline.RefSpace(bs)
    n, d = S.n, S.d
    L = float(S.b - S.a)
    cond = S.cond_inf()
    nontriv = (len(set(desc['widths'])) > 1) or S.cu or S.per
    Iex = S.integrals_exact()
    Ifold = np.array([float(v) for v in S.fold(Iex)])
    wex = np.array([float(v) for v in S.weights_exact()])
    tolI = 64 * EPS * (d + 1) * L
    tolW = 64 * EPS * cond * (d + 1) * L

    def integrals_ok(tag):
        st['evals'] += 1
        if nontriv:
            st['nontrivial'] += 1
        got = np.asarray(bs.integrals, dtype=float)
        if got.shape != (S.nc,):
            V('integrals-shape:' + cls, '%s: integrals has shape %r' % (key, got.shape))
            return
        gf = got[:n].copy()
        if S.per:
            gf[:d] += got[n:]
        if not (np.abs(gf - Ifold).max() <= tolI):
            V('integrals:%s%s' % (cls, tag), '%s: (folded) basis integrals off by %.3g; sum %.6g vs domain length %.6g' % (key, np.abs(gf - Ifold).max(), gf.sum(), L))
    integrals_ok('')
    for call in (1, 2, 3):
        st['evals'] += 1
        if nontriv:
            st['nontrivial'] += 1
        try:
            w = (itp if call < 3 else SplineInterpolator1D(bs)).get_quadrature_coefficients()
            if not (isinstance(w, np.ndarray) and w.dtype == float):
                w = np.asarray(w, dtype=float)
        except Exception as e:  # noqa
            V('weights-exception:%s:%s' % (cls, type(e).__name__), '%s: %s: %s' % (key, type(e).__name__, e))
            return
        tag = '' if call == 1 else ':repeated-call'
        if w.shape != (n,):
            V('weights-shape:' + cls, '%s: weights have shape %r, expected (%d,)' % (key, w.shape, n))
            return
        if not (np.abs(w - wex).max() <= tolW):
            V('weights:%s%s' % (cls, tag), '%s: quadrature weights off by %.3g (tol %.3g); sum(w) = %.6g, domain length %.6g (call %d)' % (
                key, np.abs(w - wex).max(), tolW, w.sum(), L, call))
        elif not (abs(w.sum() - L) <= tolW * n):
            V('weights-sum:%s%s' % (cls, tag), '%s: sum(w) = %.17g != %.17g' % (key, w.sum(), L))
        elif S.per and len(set(desc['widths'])) == 1 and not (np.abs(w - w[0]).max() <= tolW):
            V('weights-unequal:%s%s' % (cls, tag), '%s: weights on a uniform periodic space are not all equal' % key)
        integrals_ok(':after-weights')
        if call == 1:
            held = w          # the caller keeps the array it was given (no copy)
    # an interpolator built for complex data has the same (real) weights - negative ones included
    if not S.per:
        try:
            st['evals'] += 1
            if nontriv:
                st['nontrivial'] += 1
            wc = np.asarray(SplineInterpolator1D(bs, dtype=complex).get_quadrature_coefficients())
            if wc.shape != (n,) or not (np.abs(wc - wex).max() <= tolW):
                V('weights:%s:complex-interpolator' % cls, '%s: weights of a dtype=complex interpolator off by %.3g (smallest exact weight %.3g)' % (
                    key, np.abs(wc - wex).max() if wc.shape == (n,) else float('nan'), wex.min()))
        except Exception as e:  # noqa
            V('weights-exception:%s:%s' % (cls, type(e).__name__), '%s: complex interpolator: %s: %s' % (key, type(e).__name__, e))
    # the interpolator is used for interpolation afterwards: the weights handed out before must still be the weights
    try:
        from pygyro.splines.splines import Spline1D
        spl = Spline1D(bs)
        pts = np.asarray(bs.greville, dtype=float)
        for data in (np.cos(pts) + 2.0, np.eye(n)[n // 2] * 7.0):
            itp.compute_interpolant(data, spl)
        st['evals'] += 1
        if nontriv:
            st['nontrivial'] += 1
        if held.shape != (n,) or not (np.abs(np.asarray(held, dtype=float) - wex).max() <= tolW):
            V('weights-changed-by-later-interpolation:' + cls, '%s: the weights returned by get_quadrature_coefficients() were altered by a later compute_interpolant() '
              'on the same interpolator (now off by %.3g)' % (key, np.abs(np.asarray(held, dtype=float) - wex).max() if held.shape == (n,) else float('nan')))
        w2 = np.asarray(itp.get_quadrature_coefficients(), dtype=float)
        if not (np.abs(w2 - wex).max() <= tolW):
            V('weights:%s:after-interpolation' % cls, '%s: weights requested after an interpolation are off by %.3g' % (key, np.abs(w2 - wex).max()))
    except Exception as e:  # noqa
        V('weights-exception:%s:%s' % (cls, type(e).__name__), '%s: %s: %s' % (key, type(e).__name__, e))


def run_case(case):
    viols = {}
    st = {'evals': 0, 'nontrivial': 0}

    def V(sig, what):
        viols.setdefault(sig, {'sig': sig, 'what': what, 'detail': {}})
    for desc in case['descs']:
        _check(desc, case['tier'], V, st)
    return {'evals': st['evals'], 'nontrivial': st['nontrivial'], 'violations': list(viols.values()), 'stats': {}, 'sample': {'space': case['descs'][0]}}
