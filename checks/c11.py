"""C11 V-parallel advection evaluates the interpolant at v - c*dt; boundary rule holds."""
import itertools

PROPERTY = 'C11'
LEVEL = 'exploration'
TIMEOUT_S = 1200
RULE = ('n_v x velocity domain (symmetric, asymmetric, not containing 0) x spline path (uniform cubic, general degrees 2/3/4, non-uniform breaks) x boundary mode (fEq, null, periodic) x shift classes '
        'c*dt/dv in {0, +-0.3, +-1, +-2.5, +-(nv+1/2), +-(2nv+0.3)} with the sign obtained from c and from dt x r in {rMin, rp, rMax}; data = every unit '
        'vector, zero (isolates the affine boundary part), dense; oracle = exact-rational interpolation matrix evaluated at v-c*dt; outside the domain the '
        'independently coded closed-form equilibrium at (r, foot), 0, or the periodic image; feet within 1e-12*(vMax-vMin) of a boundary but not on it '
        'are excluded (counted); grid-level clause: gridStep and gridStepKeepGradient on every process grid of a 5x6x7x8 grid (simulated world) against per-line step() of a serial operator with the serially computed gradient at the global (r,z,theta) of the line, two gradient-reusing calls with different dt; '
        'an evaluation is one step() call; non-trivial = some foot leaves the domain or lies strictly inside a cell')
ASSUMPTIONS = ['pgv.refspline', 'tolerance 1e-12*||A^-1||_inf*max(1,|f|)', 'slice-level step() and ParallelGradient (decided by the other cases and by C13) serve as reference for the grid-level loops']

NV = {'quick': [6, 7, 10], 'thorough': [6, 7, 10, 13]}
SPACES = {'quick': [('cu', 3, None), ('nu', 2, [1, 2, 0.5]), ('nu', 3, [1, 1.5]), ('nu', 4, None)],
          'thorough': [('cu', 3, None), ('nu', 2, [1, 2, 0.5]), ('nu', 3, [1, 1.5]), ('nu', 4, None), ('nu', 3, None), ('nu', 5, [1, 2]), ('nu', 1, [1, 3])]}


def cases(tier, seed):
    out = []
    for nv, sp, edge in itertools.product(NV[tier], SPACES[tier], ('fEq', 'null', 'periodic')):
        if sp[1] >= nv:
            continue
        for dom in ([-3.0, 3.0], [-7.0, 3.0], [1.0, 6.0]):
            if tier == 'quick' and dom != [-3.0, 3.0] and nv != 7:
                continue
            out.append({'nv': nv, 'space': list(sp), 'edge': edge, 'domain': dom, 'cost': nv * nv})
    # grid-level clause: each (r, z, theta) line is advected with the gradient of the same GLOBAL position
    npts = [5, 6, 7, 8]
    grids = [[1, 1], [2, 1], [1, 2], [2, 2], [1, 3], [3, 2], [2, 3]] if tier == 'quick' else \
        [[a, b] for a in range(1, 6) for b in range(1, 8) if a * b <= 12]
    for g in grids:
        for iota in (0.0, 0.8):
            out.append({'kind': 'grid', 'npts': npts, 'grid': g, 'iota': iota, 'cost': 300 * g[0] * g[1]})
    return out


def _grid_case(case):
    import numpy as np
    from pgv import sim
    from checks import c05
    MPI = sim.setup()
    from pygyro.initialisation.setups import setupCylindricalGrid
    from pygyro.model.layout import LayoutSwapper, Layout
    from pygyro.model.grid import Grid
    from pygyro.advection.advection import VParallelAdvection, ParallelGradient
    npts = case['npts']
    nprocs = case['grid']
    PHI = c05._phi_global(npts)
    dt = 0.7

    def close(a, b):
        return a.shape == b.shape and sim.maxrel(a, b) <= 1e-13

    def fn(r):
        comm = MPI.COMM_WORLD
        viol = []
        f, c, t = setupCylindricalGrid(layout='v_parallel', npts=list(npts), comm=comm, iotaVal=case['iota'], eps=0.1, m=3, n=-2,
                                       vMin=-6.1, **c05.GEN)
        eta = f.eta_grid
        lvp = f.getLayout('v_parallel')
        gi = sim.global_index_arrays(lvp)
        f.getAllData()[:] *= 1 + 0.3 * np.sin(1.0 + gi[0] * 1.3 + gi[1] * 0.7 + gi[2] * 2.1 + gi[3] * 0.9)
        spl = [f.getSpline(k) for k in range(4)]
        lp = {'v_parallel_2d': [0, 2, 1], 'mode_solve': [1, 2, 0]}
        rphi = LayoutSwapper(comm, [lp, {'v_parallel_1d': [0, 2, 1]}, {'poloidal': [2, 1, 0]}], [nprocs, nprocs[0], nprocs[1]], eta[:3], 'v_parallel_1d')
        phi = Grid(eta[:3], f.getSpline(slice(0, 3)), rphi, 'v_parallel_1d', comm, dtype=np.complex128)
        l1 = phi.getLayout('v_parallel_1d')
        phi.getAllData()[:] = np.transpose(PHI, l1.dims_order)[tuple(slice(int(a), int(b)) for a, b in zip(l1.starts, l1.ends))]
        vParAdv = VParallelAdvection(eta, spl[3], c)
        parGrad = ParallelGradient(spl[1], eta, l1, c)
        parGradVals = np.full([lvp.shape[0], npts[2], npts[1]], np.nan)
        vParS = VParallelAdvection(eta, spl[3], c)
        parGradS = ParallelGradient(spl[1], eta, Layout('v_parallel_1d', [1], [0, 2, 1], eta[:3], [0]), c)
        n = 0
        before = f.getAllData().copy()
        vParAdv.gridStep(f, phi, parGrad, parGradVals, dt)
        ders = {}
        for i in range(before.shape[0]):
            I = int(lvp.starts[0]) + i
            plane = np.ascontiguousarray(PHI[I].T)
            der = np.empty_like(plane)
            parGradS.parallel_gradient(plane, I, der)
            ders[i] = der
            if not close(parGradVals[i], der):
                viol.append('grid-step:gradient-table')
        for name, h in (('gridStep', dt), ('gridStepKeepGradient', -0.4 * dt), ('gridStepKeepGradient', 0.5 * dt)):
            if name != 'gridStep':
                before = f.getAllData().copy()
                vParAdv.gridStepKeepGradient(f, parGradVals, h)
            ok = True
            for i in range(before.shape[0]):
                I = int(lvp.starts[0]) + i
                for j in range(before.shape[1]):
                    J = int(lvp.starts[1]) + j
                    for k in range(before.shape[2]):
                        e = before[i, j, k].copy()
                        vParS.step(e, h, ders[i][J, k], eta[0][I])
                        ok = ok and close(f.getAllData()[i, j, k], e)
                        n += 1
            if not ok:
                viol.append('grid-level:%s:line-not-advected-with-gradient-of-its-global-position' % name)
        return n, viol
    res, _w = sim.run_world(nprocs, fn)
    viols = {}
    evals = 0
    for rk, (n, vl) in enumerate(res):
        evals += n
        for v in vl:
            viols.setdefault(v, {'sig': v, 'what': '%s on rank %d (npts %r process grid %r iota %g)' % (v, rk, npts, nprocs, case['iota']), 'detail': {}})
    nt = evals if nprocs[0] * nprocs[1] > 1 else 0
    return {'evals': evals, 'nontrivial': nt, 'violations': list(viols.values()), 'stats': {}, 'sample': {'grid': nprocs, 'lines': evals}}


def run_case(case):
    if case.get('kind') == 'grid':
        return _grid_case(case)
    import numpy as np
    from pgv import sim, ops, refspline
    sim.setup()
    from pygyro.advection.advection import VParallelAdvection
    from pygyro.initialisation.constants import Constants
    nv = case['nv']
    kind, deg, warp = case['space']
    edge = case['edge']
    et = {'fEq': 0, 'null': 1, 'periodic': 2}[edge]
    viols = {}

    def V(sig, what):
        viols.setdefault(sig, {'sig': sig, 'what': what, 'detail': {}})
    tag = 'nv=%d spline=%s edge=%s domain=%r' % (nv, case['space'], edge, case['domain'])
    c = ops.generic_constants(Constants())
    bs = ops.mkspace(nv, case['domain'][0], case['domain'][1], deg, False, kind == 'cu', warp)
    S = refspline.RefSpace(bs)
    cond = S.cond_inf()
    pts = np.asarray(bs.greville, dtype=float)
    vmin, vmax = pts[0], pts[-1]
    width = vmax - vmin
    dv = width / (nv - 1)
    # another operator of the same process on a space of the same size, degree and domain with other interior knots, built (and used
    # once) first: the operator under test is never the first of its size class
    bs_sib = ops.mkspace(nv, case['domain'][0], case['domain'][1], deg, False, False, [1, 1.5] if warp is None else None)
    adv_sib = VParallelAdvection([None, None, None, np.asarray(bs_sib.greville, dtype=float)], bs_sib, c, edge=edge)
    adv_sib.step(np.cos(pts), 0.1, 0.3, 0.1)
    adv = VParallelAdvection([None, None, None, pts], bs, c, edge=edge)
    datas = [('e%d' % k, np.eye(nv)[k]) for k in range(nv)] + [('zero', np.zeros(nv)), ('dense', np.cos(pts) + 0.1 * pts ** 2), ('tiny', 1e-20 * (np.cos(pts) + 0.1 * pts ** 2))]
    evals = nontriv = skipped = 0
    worst = 0.0
    for cls in (0.0, 0.3, 1.0, 2.5, nv + 0.5, 2 * nv + 0.3):
        for sgn, how in itertools.product((1, -1), ('c', 'dt')):
            if cls == 0.0 and (sgn, how) != (1, 'c'):
                continue
            shift = sgn * cls * dv
            cc, dt = (shift, 1.0) if how == 'c' else (-1.0, -shift)
            feet = pts - cc * dt
            inside = np.ones(nv, dtype=bool)
            w = feet.copy()
            if et == 2:
                for i in range(nv):
                    while w[i] < vmin:
                        w[i] += width
                    while w[i] > vmax:
                        w[i] -= width
            else:
                inside = ~((feet < vmin) | (feet > vmax))
            near = np.array([0 < min(abs(x - vmin), abs(x - vmax)) < 1e-12 * width for x in (w if et == 2 else feet)])
            E = np.zeros((nv, nv))
            if inside.any():
                E[inside] = ops.eval_matrix(S, w[inside])
            for r in (c.rMin, c.rp, c.rMax):
                aff = np.zeros(nv)
                if et == 0:
                    for i in range(nv):
                        if not inside[i]:
                            aff[i] = ops.feq(c, r, feet[i])
                for name, f in datas:
                    g = f.copy()
                    evals += 1
                    if (~inside).any() or shift != 0:
                        nontriv += 1
                    try:
                        adv.step(g, dt, cc, r)
                    except Exception as e:  # noqa
                        V('step-exception:' + type(e).__name__, '%s c=%g dt=%g r=%g data=%s: %s: %s' % (tag, cc, dt, r, name, type(e).__name__, e))
                        break
                    want = E @ f + aff
                    tol = 1e-12 * cond * max(1e-300, np.abs(f).max(), np.abs(aff).max())          # relative: the step is affine in f
                    ok = ~near
                    skipped += int(near.sum())
                    err = np.abs(g - want)[ok].max() if ok.any() else 0.0
                    worst = max(worst, err / tol)
                    if not err <= tol:
                        where = 'outside' if (~inside[ok] & (np.abs(g - want)[ok] > tol)).any() else 'inside'
                        V('step-differs:%s-feet' % where, '%s c=%g dt=%g (shift %.3g cells) r=%g data=%s: max error %.3g (tol %.3g)' % (tag, cc, dt, shift / dv, r, name, err, tol))
    return {'evals': evals, 'nontrivial': nontriv, 'violations': list(viols.values()), 'stats': {'max_err_over_tol': worst, 'skipped_nodes_near_boundary': skipped},
            'sample': {'config': tag, 'steps': evals, 'worst_error_over_tolerance': worst}}
