"""C11 V-parallel advection evaluates the interpolant at v - c*dt; boundary rule holds."""
import itertools

PROPERTY = 'C11'
LEVEL = 'exploration'
TIMEOUT_S = 1200
RULE = ('n_v x velocity domain (symmetric, asymmetric, not containing 0) x spline path (uniform cubic, general degrees 2/3/4, non-uniform breaks) x boundary mode (fEq, null, periodic) x shift classes '
        'c*dt/dv in {0, +-0.3, +-1, +-2.5, +-(nv+1/2), +-(2nv+0.3)} with the sign obtained from c and from dt x r in {rMin, rp, rMax}; data = every unit '
        'vector, zero (isolates the affine boundary part), dense; oracle = exact-rational interpolation matrix evaluated at v-c*dt; outside the domain the '
        'independently coded closed-form equilibrium at (r, foot), 0, or the periodic image; feet within 1e-12*(vMax-vMin) of a boundary but not on it '
        'are excluded (counted); the grid-level clause (gradient of the same global position) is decided in C05 (wiring:vpar, wiring:parallel-gradient); '
        'an evaluation is one step() call; non-trivial = some foot leaves the domain or lies strictly inside a cell')
ASSUMPTIONS = ['pgv.refspline', 'tolerance 1e-12*||A^-1||_inf*max(1,|f|)', 'grid-level clause covered by C05']

NV = {'quick': [6, 7, 10], 'thorough': [6, 7, 10, 13]}
SPACES = {'quick': [('cu', 3, None), ('nu', 2, [1, 2, 0.5]), ('nu', 3, [1, 1.5]), ('nu', 4, None)],
          'thorough': [('cu', 3, None), ('nu', 2, [1, 2, 0.5]), ('nu', 3, [1, 1.5]), ('nu', 4, None), ('nu', 3, None), ('nu', 5, [1, 2]), ('nu', 1, [1, 3])]}


def cases(tier, seed):
    out = []
    for nv, sp, edge in itertools.product(NV[tier], SPACES[tier], ('fEq', 'null', 'periodic')):
        if sp[1] >= nv:
            continue
        for dom in ([-3.0, 3.0], [-7.0, 3.0], [1.0, 6.0]):
            if tier == 'quick' and dom != [-3.0, 3.0] and nv != 7:
                continue
            out.append({'nv': nv, 'space': list(sp), 'edge': edge, 'domain': dom, 'cost': nv * nv})
    return out


def run_case(case):
    import numpy as np
    from pgv import sim, ops, refspline
    sim.setup()
    from pygyro.advection.advection import VParallelAdvection
    from pygyro.initialisation.constants import Constants
    nv = case['nv']
    kind, deg, warp = case['space']
    edge = case['edge']
    et = {'fEq': 0, 'null': 1, 'periodic': 2}[edge]
    viols = {}

    def V(sig, what):
        viols.setdefault(sig, {'sig': sig, 'what': what, 'detail': {}})
    tag = 'nv=%d spline=%s edge=%s domain=%r' % (nv, case['space'], edge, case['domain'])
    c = ops.generic_constants(Constants())
    bs = ops.mkspace(nv, case['domain'][0], case['domain'][1], deg, False, kind == 'cu', warp)
    S = refspline.RefSpace(bs)
    cond = S.cond_inf()
    pts = np.asarray(bs.greville, dtype=float)
    vmin, vmax = pts[0], pts[-1]
    width = vmax - vmin
    dv = width / (nv - 1)
    adv = VParallelAdvection([None, None, None, pts], bs, c, edge=edge)
    datas = [('e%d' % k, np.eye(nv)[k]) for k in range(nv)] + [('zero', np.zeros(nv)), ('dense', np.cos(pts) + 0.1 * pts ** 2)]
    evals = nontriv = skipped = 0
    worst = 0.0
    for cls in (0.0, 0.3, 1.0, 2.5, nv + 0.5, 2 * nv + 0.3):
        for sgn, how in itertools.product((1, -1), ('c', 'dt')):
            if cls == 0.0 and (sgn, how) != (1, 'c'):
                continue
            shift = sgn * cls * dv
            cc, dt = (shift, 1.0) if how == 'c' else (-1.0, -shift)
            feet = pts - cc * dt
            inside = np.ones(nv, dtype=bool)
            w = feet.copy()
            if et == 2:
                for i in range(nv):
                    while w[i] < vmin:
                        w[i] += width
                    while w[i] > vmax:
                        w[i] -= width
            else:
                inside = ~((feet < vmin) | (feet > vmax))
            near = np.array([0 < min(abs(x - vmin), abs(x - vmax)) < 1e-12 * width for x in (w if et == 2 else feet)])
            E = np.zeros((nv, nv))
            if inside.any():
                E[inside] = ops.eval_matrix(S, w[inside])
            for r in (c.rMin, c.rp, c.rMax):
                aff = np.zeros(nv)
                if et == 0:
                    for i in range(nv):
                        if not inside[i]:
                            aff[i] = ops.feq(c, r, feet[i])
                for name, f in datas:
                    g = f.copy()
                    evals += 1
                    if (~inside).any() or shift != 0:
                        nontriv += 1
                    try:
                        adv.step(g, dt, cc, r)
                    except Exception as e:  # noqa
                        V('step-exception:' + type(e).__name__, '%s c=%g dt=%g r=%g data=%s: %s: %s' % (tag, cc, dt, r, name, type(e).__name__, e))
                        break
                    want = E @ f + aff
                    tol = 1e-12 * cond * max(1.0, np.abs(f).max())
                    ok = ~near
                    skipped += int(near.sum())
                    err = np.abs(g - want)[ok].max() if ok.any() else 0.0
                    worst = max(worst, err / tol)
                    if not err <= tol:
                        where = 'outside' if (~inside[ok] & (np.abs(g - want)[ok] > tol)).any() else 'inside'
                        V('step-differs:%s-feet' % where, '%s c=%g dt=%g (shift %.3g cells) r=%g data=%s: max error %.3g (tol %.3g)' % (tag, cc, dt, shift / dv, r, name, err, tol))
    return {'evals': evals, 'nontrivial': nontriv, 'violations': list(viols.values()), 'stats': {'max_err_over_tol': worst, 'skipped_nodes_near_boundary': skipped},
            'sample': {'config': tag, 'steps': evals, 'worst_error_over_tolerance': worst}}
