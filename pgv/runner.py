"""Check runner: distributes the cases of one property over worker processes, aggregates
coverage, classifies violations against KNOWN_FINDINGS.jsonl, writes evidence and replays.

Check-module interface (checks/cNN.py):
    PROPERTY, LEVEL ('exploration' | 'model_checking'), RULE, ASSUMPTIONS
    cases(tier, seed)  -> list of JSON-able dicts (optionally with 'cost')
    run_case(case)     -> dict(evals=int, nontrivial=int|list[str], violations=[{sig, what, detail}],
                               stats={name: number}, sample=obj)
    optional: finish(tier, results) -> dict of extra coverage keys / violations
              TIMEOUT_S (per case), EXHAUSTIVE (bool)
"""
import argparse
import hashlib
import importlib
import json
import multiprocessing as mp
import multiprocessing.connection as mpc
import os
import random
import signal
import sys
import time
import traceback

from . import env

NWORKERS = int(os.environ.get('VERIF_WORKERS', '16'))


def _worker(conn, modname):
    cov = None
    if os.environ.get('VERIF_COVER'):
        # development aid (tools/coverage_report.sh): which lines of the repository do the checks execute at all
        import coverage
        cov = coverage.Coverage(data_file=os.path.join(os.environ['VERIF_COVER'], 'cov'), data_suffix=True, source=[env.REPO], config_file=False, branch=bool(os.environ.get('VERIF_COVER_BRANCH')))
        cov.start()
    try:
        _worker_loop(conn, modname)
    finally:
        if cov is not None:
            cov.stop()
            cov.save()


def _worker_loop(conn, modname):
    try:
        signal.signal(signal.SIGINT, signal.SIG_IGN)
        os.environ.setdefault('PYTHONHASHSEED', '0')
        env.setup()
        from . import simmpi
        simmpi.install()
        mod = importlib.import_module(modname)
        if hasattr(mod, 'worker_init'):
            mod.worker_init()
    except BaseException:
        conn.send(('fatal', traceback.format_exc()))
        return
    conn.send(('ready', None))
    while True:
        try:
            msg = conn.recv()
        except EOFError:
            return
        if msg is None:
            return
        idx, case = msg
        try:
            res = mod.run_case(case)
            conn.send(('ok', idx, res))
        except BaseException as e:  # noqa
            conn.send(('exc', idx, '%s: %s' % (type(e).__name__, e), traceback.format_exc()))


class Pool:
    """Small process pool with per-case timeout and crash isolation."""

    def __init__(self, modname, n, timeout):
        self.modname = modname
        self.n = n
        self.timeout = timeout
        self.ctx = mp.get_context('fork')
        self.workers = {}

    def _spawn(self):
        a, b = self.ctx.Pipe()
        p = self.ctx.Process(target=_worker, args=(b, self.modname), daemon=True)
        p.start()
        b.close()
        self.workers[a] = {'proc': p, 'busy': None, 'since': None, 'ready': False}
        return a

    def _kill(self, conn):
        w = self.workers.pop(conn)
        try:
            w['proc'].kill()
            w['proc'].join(5)
        except Exception:
            pass
        try:
            conn.close()
        except Exception:
            pass

    def run(self, cases, deadline=None):
        """Yields (idx, kind, payload): kind in ok / exc / timeout / crash.  Stops when all
        cases are done or the deadline passes (remaining cases are then reported by
        self.unfinished)."""
        todo = list(range(len(cases)))[::-1]
        pending = 0
        self.unfinished = []
        for _ in range(min(self.n, max(1, len(cases)))):
            self._spawn()
        try:
            while todo or pending:
                if deadline is not None and time.time() > deadline:
                    self.unfinished = todo[::-1] + [w['busy'] for w in self.workers.values() if w['busy'] is not None]
                    return
                ready = mpc.wait(list(self.workers), timeout=1.0)
                for conn in ready:
                    w = self.workers[conn]
                    try:
                        msg = conn.recv()
                    except (EOFError, ConnectionResetError, OSError):
                        idx = w['busy']
                        self._kill(conn)
                        if idx is not None:
                            pending -= 1
                            yield idx, 'crash', 'worker process died'
                        if todo:
                            self._spawn()
                        continue
                    if msg[0] == 'fatal':
                        raise RuntimeError('worker initialisation failed:\n' + msg[1])
                    if msg[0] == 'ready':
                        w['ready'] = True
                    else:
                        pending -= 1
                        w['busy'] = None
                        if msg[0] == 'ok':
                            yield msg[1], 'ok', msg[2]
                        else:
                            yield msg[1], 'exc', (msg[2], msg[3])
                    if w['ready'] and w['busy'] is None and todo:
                        idx = todo.pop()
                        w['busy'] = idx
                        w['since'] = time.time()
                        conn.send((idx, cases[idx]))
                        pending += 1
                now = time.time()
                for conn in list(self.workers):
                    w = self.workers[conn]
                    if w['busy'] is not None:
                        lim = cases[w['busy']].get('timeout', self.timeout)
                        if now - w['since'] > lim:
                            idx = w['busy']
                            self._kill(conn)
                            pending -= 1
                            yield idx, 'timeout', 'no result after %.0f s' % lim
                            self._spawn()
                if not self.workers and (todo or pending):
                    self._spawn()
        finally:
            for conn in list(self.workers):
                try:
                    conn.send(None)
                except Exception:
                    pass
            t0 = time.time()
            for conn in list(self.workers):
                w = self.workers[conn]
                w['proc'].join(max(0.1, (60 if os.environ.get('VERIF_COVER') else 3) - (time.time() - t0)))
                self._kill(conn)


# --------------------------------------------------------------------------- findings
def load_known():
    """Parse KNOWN_FINDINGS.txt -> list of dicts(status, property, signature, what)."""
    import re
    path = os.path.join(env.VERIF, 'KNOWN_FINDINGS.txt')
    out = []
    if os.path.exists(path):
        for line in open(path):
            line = line.strip()
            if not line or line.startswith('#'):
                continue
            m = re.match(r'open:\s+property=(\S+)\s+signature=(\S+)\s+(.*)$', line)
            if m:
                out.append({'status': 'open', 'property': m.group(1), 'signature': m.group(2), 'what': m.group(3)})
                continue
            m = re.match(r'fixed:\s+property=(\S+)\s+(\S+)\s+(.*)$', line)
            if m:
                out.append({'status': 'fixed', 'property': m.group(1), 'commit': m.group(2), 'what': m.group(3)})
                continue
            raise ValueError('KNOWN_FINDINGS.txt: cannot parse line: ' + line)
    return out


def _json_default(o):
    try:
        import numpy as np
        if isinstance(o, np.integer):
            return int(o)
        if isinstance(o, np.floating):
            return float(o)
        if isinstance(o, np.ndarray):
            return o.tolist()
        if isinstance(o, np.bool_):
            return bool(o)
    except Exception:
        pass
    if isinstance(o, (set, frozenset, tuple)):
        return list(o)
    return repr(o)


def dumps(o, **kw):
    return json.dumps(o, default=_json_default, **kw)


def _outdir():
    # evidence/ and replays/ live in /verif; tools that run the checks against modified scratch trees redirect them
    return os.environ.get('VERIF_OUT') or env.VERIF


def write_replay(prop, case, viol):
    os.makedirs(os.path.join(_outdir(), 'replays'), exist_ok=True)
    body = {'property': prop, 'case': case, 'violation': viol}
    h = hashlib.sha1(dumps({'case': case, 'sig': viol.get('sig')}, sort_keys=True).encode()).hexdigest()[:12]
    path = os.path.join(_outdir(), 'replays', '%s-%s.json' % (prop, h))
    with open(path, 'w') as f:
        f.write(dumps(body, indent=1, sort_keys=True))
    return path


def main(modname, argv=None):
    ap = argparse.ArgumentParser()
    ap.add_argument('--tier', default=os.environ.get('VERIF_TIER', 'quick'), choices=['quick', 'thorough'])
    ap.add_argument('--replay', default=None)
    ap.add_argument('--only', default=None, help='substring filter on the JSON of the case (debugging)')
    ap.add_argument('--workers', type=int, default=NWORKERS)
    ap.add_argument('--deadline', type=float, default=float(os.environ.get('VERIF_DEADLINE_S', '0')) or None)
    args = ap.parse_args(argv)
    seed = int(os.environ.get('VERIF_SEED', '0') or 0)
    t0 = time.time()
    env.purge_stale()
    mod = importlib.import_module(modname)      # parent: only for cases()/metadata; must not import pygyro at top level
    prop = mod.PROPERTY

    if args.replay:
        body = json.load(open(args.replay))
        env.setup()
        from . import simmpi
        simmpi.install()
        if hasattr(mod, 'worker_init'):
            mod.worker_init()
        prep = mod.prepare(args.tier) if hasattr(mod, 'prepare') else None
        if prep is not None and hasattr(mod, 'rebind_case'):
            body['case'] = mod.rebind_case(body['case'], prep)
        try:
            res = mod.run_case(body['case'])
        finally:
            if hasattr(mod, 'cleanup'):
                mod.cleanup(prep)
        sigs = [v['sig'] for v in res.get('violations', [])]
        print('replay of %s: violations now: %s' % (args.replay, sigs or 'none'))
        for v in res.get('violations', []):
            print('  ', v['sig'], '-', v.get('what', ''))
        if sigs:
            print('VIOLATION property=%s replay=%s' % (prop, args.replay))
            return 1
        return 0

    prep = None
    if hasattr(mod, 'prepare'):
        prep = mod.prepare(args.tier)          # e.g. scratch build; returns a JSON-able context handed to cases()
    cases = mod.cases(args.tier, seed) if prep is None else mod.cases(args.tier, seed, prep)
    if args.only:
        cases = [c for c in cases if args.only in dumps(c)]
    rnd = random.Random(seed)
    rnd.shuffle(cases)
    cases.sort(key=lambda c: -c.get('cost', 0))
    timeout = getattr(mod, 'TIMEOUT_S', 600)
    if os.environ.get('VERIF_TIMEOUT_CAP_S'):      # development aid (tools/mutate.py): never used by registered commands
        timeout = min(timeout, float(os.environ['VERIF_TIMEOUT_CAP_S']))
    failfast = bool(os.environ.get('VERIF_FAILFAST'))      # development aid: stop at the first violation
    deadline = t0 + args.deadline if args.deadline else None

    pool = Pool(modname, args.workers, timeout)
    evals = 0
    nontriv_keys = set()
    nontriv_count = 0
    stats = {}
    samples = []
    viols = []          # (case idx, violation dict)
    results = {}
    ndone = 0
    _known_sigs = set(k['signature'] for k in load_known() if k.get('property') == prop and k.get('status', 'open') == 'open')
    gen = pool.run(cases, deadline)
    for idx, kind, payload in gen:
        if failfast and any(v['sig'] not in _known_sigs for _, v in viols):
            gen.close()
            break
        ndone += 1
        if kind == 'ok':
            res = payload
            results[idx] = res
            evals += int(res.get('evals', 1))
            nt = res.get('nontrivial', 0)
            if isinstance(nt, int):
                nontriv_count += nt
            else:
                nontriv_keys.update(nt)
            for k, v in (res.get('stats') or {}).items():
                if isinstance(v, (int, float)):
                    if k.startswith('max_'):
                        stats[k] = max(stats.get(k, v), v)
                    else:
                        stats[k] = stats.get(k, 0) + v
                elif isinstance(v, list):
                    cur = stats.setdefault(k, [])
                    for x in v:
                        if x not in cur and len(cur) < 50:
                            cur.append(x)
            if len(samples) < 3 and res.get('sample') is not None:
                samples.append({'case': cases[idx], 'observed': res['sample']})
            for v in res.get('violations', []):
                viols.append((idx, v))
        elif kind == 'exc':
            viols.append((idx, {'sig': 'harness-exception:' + payload[0][:120], 'what': payload[0], 'detail': payload[1][-3000:]}))
        elif kind == 'timeout':
            viols.append((idx, {'sig': 'timeout', 'what': 'case did not terminate: ' + payload, 'detail': ''}))
        else:
            viols.append((idx, {'sig': 'crash', 'what': payload, 'detail': ''}))
    unfinished = getattr(pool, 'unfinished', [])
    extra = {}
    if hasattr(mod, 'finish'):
        fin = mod.finish(args.tier, [results.get(i) for i in range(len(cases))], cases) or {}
        for v in fin.pop('violations', []):
            viols.append((v.pop('case_idx', 0), v))
        extra.update(fin)

    # ---------------------------------------------------------------- classification
    known = [k for k in load_known() if k.get('property') == prop and k.get('status', 'open') == 'open']
    seen_known = {}
    unknown = []
    for idx, v in viols:
        hit = None
        for k in known:
            if v['sig'] == k['signature']:
                hit = k
                break
        if hit is not None:
            seen_known.setdefault(hit['signature'], [hit, 0])[1] += 1
        else:
            unknown.append((idx, v))
    for sig, (k, n) in sorted(seen_known.items()):
        print('KNOWN-FINDING: property=%s %s [signature %s, %d failing case(s) in this run]' % (prop, k['what'], sig, n))
    for k in known:
        if k['signature'] not in seen_known:
            print('note: listed finding %s was not reproduced in this %s run' % (k['signature'], args.tier))
    rc = 0
    reported = {}
    # determinism: re-run (up to 3) violating cases once; a violation that does not reproduce is marked
    rerun_idx = []
    for idx, v in unknown:
        if idx < len(cases) and idx not in rerun_idx and v['sig'] not in ('timeout', 'crash') and len(rerun_idx) < 3:
            rerun_idx.append(idx)
    rerun_sigs = {}
    if rerun_idx and not os.environ.get('VERIF_NO_RERUN'):
        sub = [dict(cases[i], timeout=cases[i].get('timeout', timeout)) for i in rerun_idx]
        pool2 = Pool(modname, min(args.workers, len(sub)), timeout)
        for j, kind, payload in pool2.run(sub, None):
            rerun_sigs[rerun_idx[j]] = set(x['sig'] for x in payload.get('violations', [])) if kind == 'ok' else ({'harness-exception:' + payload[0][:120]} if kind == 'exc' else {kind})
    for idx, v in unknown:
        if idx in rerun_sigs:
            v['reproduced_on_rerun'] = v['sig'] in rerun_sigs[idx]
    if hasattr(mod, 'cleanup'):
        mod.cleanup(prep)
    for idx, v in unknown:
        if v['sig'] in reported:
            reported[v['sig']][1] += 1
            continue
        path = write_replay(prop, cases[idx] if idx < len(cases) else {}, v)
        reported[v['sig']] = [path, 1, v]
    for sig, (path, n, v) in reported.items():
        print('violation: %s -- %s (%d case(s)%s)' % (sig, str(v.get('what', ''))[:300], n,
                                                     '' if v.get('reproduced_on_rerun', True) else '; NOT reproduced when the case was re-run: nondeterministic'))
        print('VIOLATION property=%s replay=%s' % (prop, path))
        rc = 1

    nontriv = nontriv_count + len(nontriv_keys)
    exhaustive = bool(getattr(mod, 'EXHAUSTIVE', True)) and not unfinished and not stats.get('capped', 0)
    cov = {
        'evaluations': int(evals),
        'distinct_nontrivial': int(nontriv),
        'rule': mod.RULE,
        'samples': samples or [{'case': c} for c in cases[:2]],
        'exhaustive': exhaustive,
        'cases_total': len(cases),
        'cases_completed': ndone,
        'cases_unfinished_at_deadline': len(unfinished),
        'known_findings_reproduced': sorted(seen_known),
        'stats': stats,
    }
    cov.update(extra)
    if getattr(mod, 'LEVEL', 'exploration') == 'model_checking':
        cov.setdefault('states', int(stats.get('states', 0)))
        cov.setdefault('transitions', int(stats.get('transitions', 0)))
        cov.setdefault('traces_validated_against_impl', int(stats.get('traces_validated_against_impl', cov['transitions'])))
    ev = {
        'property_id': prop,
        'tier': args.tier,
        'seed': seed,
        'level': getattr(mod, 'LEVEL', 'exploration'),
        'coverage': cov,
        'assumptions': list(getattr(mod, 'ASSUMPTIONS', [])),
        'wall_s': round(time.time() - t0, 2),
        'violations': len(reported),
    }
    os.makedirs(os.path.join(_outdir(), 'evidence'), exist_ok=True)
    with open(os.path.join(_outdir(), 'evidence', prop + '.json'), 'w') as f:
        f.write(dumps(ev, indent=1))
    print('%s %s: %d cases, %d evaluations, %d non-trivial, %d known-finding hit(s), %d new violation signature(s), %.1f s%s'
          % (prop, args.tier, ndone, evals, nontriv, sum(n for _, n in seen_known.values()), len(reported),
             time.time() - t0, '' if exhaustive else ' [NOT exhaustive: %d unfinished]' % len(unfinished)))
    env.cleanup_root()
    return rc
