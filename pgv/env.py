"""Process environment: import pygyro from /repo's *working tree source*, scratch dirs.

Nothing here edits /repo.  `setup()` must be called once per (worker) process before any
pygyro module is imported.
"""
import importlib.abc
import importlib.machinery
import importlib.util
import os
import shutil
import sys
import tempfile

REPO = os.environ.get('VERIF_REPO', '/repo')
VERIF = os.path.dirname(os.path.dirname(os.path.abspath(__file__)))
SCRATCH_ROOT = os.environ.get('VERIF_SCRATCH', '/var/tmp/pygyro-verif')
GUARD = 'PYGYRO_VERIF'


class _SourceOnlyFinder(importlib.abc.MetaPathFinder):
    """Resolve pygyro.* and fullSimulation to the .py files of REPO, never to a built .so.

    A source edit in /repo is therefore always what gets executed, even if somebody has
    run `make` inside the tree."""

    def find_spec(self, name, path=None, target=None):
        if name != 'fullSimulation' and name != 'pygyro' and not name.startswith('pygyro.'):
            return None
        rel = name.replace('.', os.sep)
        pkg = os.path.join(REPO, rel, '__init__.py')
        mod = os.path.join(REPO, rel + '.py')
        if os.path.isfile(pkg):
            return importlib.util.spec_from_file_location(
                name, pkg, loader=importlib.machinery.SourceFileLoader(name, pkg),
                submodule_search_locations=[os.path.join(REPO, rel)])
        if os.path.isfile(mod):
            return importlib.util.spec_from_file_location(
                name, mod, loader=importlib.machinery.SourceFileLoader(name, mod))
        return None


_done = False


def setup():
    """Idempotent per-process initialisation."""
    global _done
    if _done:
        return
    _done = True
    os.environ[GUARD] = '1'
    sys.dont_write_bytecode = True
    sys.meta_path.insert(0, _SourceOnlyFinder())
    if REPO not in sys.path:
        sys.path.insert(0, REPO)
    import warnings
    warnings.simplefilter('ignore')


def purge_stale(hours=8):
    """remove scratch directories left behind by killed runs (older than `hours`)"""
    import time
    try:
        now = time.time()
        for n in os.listdir(SCRATCH_ROOT):
            p = os.path.join(SCRATCH_ROOT, n)
            if now - os.path.getmtime(p) > hours * 3600:
                shutil.rmtree(p, ignore_errors=True)
    except OSError:
        pass


def scratch_dir(tag='x'):
    os.makedirs(SCRATCH_ROOT, exist_ok=True)
    return tempfile.mkdtemp(prefix='%s-%d-' % (tag, os.getpid()), dir=SCRATCH_ROOT)


def rm(path):
    shutil.rmtree(path, ignore_errors=True)


def cleanup_root():
    """Remove the whole scratch root if it is empty of other processes' work."""
    try:
        if os.path.isdir(SCRATCH_ROOT) and not os.listdir(SCRATCH_ROOT):
            os.rmdir(SCRATCH_ROOT)
    except OSError:
        pass
