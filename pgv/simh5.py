"""mpio-emulating h5py shim (engine E2).

`h5py.File(name, 'w', driver='mpio', comm=c)` is a collective on `c`: one real serial
h5py.File is created and shared by all ranks through proxies.  `create_dataset`,
`attrs.create` and `close` are collectives with signature checks; hyperslab writes are
independent and go to the shared real dataset; overlapping writes from two different ranks
are recorded in world.h5_overlaps.  Everything else passes through to the real h5py.
"""
import h5py as real
import numpy as np

from . import simmpi


class _AttrsProxy:
    def __init__(self, dsp):
        self._d = dsp

    def create(self, name, data, shape=None, dtype=None):
        d = self._d
        sig = ('h5.attrs.create', d._name, name, tuple(np.asarray(data).ravel().tolist()),
               tuple(shape) if shape is not None else None)

        def result_for(i, c, order, cache):
            if 'done' not in cache:
                d._real.attrs.create(name, data, shape, dtype)
                cache['done'] = True
            return None
        d._comm._coll(sig, None, result_for)

    def __getitem__(self, k):
        return self._d._real.attrs[k]


class _DatasetProxy:
    def __init__(self, realds, comm, name, fileshared):
        self._real = realds
        self._comm = comm
        self._name = name
        self._fs = fileshared

    @property
    def attrs(self):
        return _AttrsProxy(self)

    @property
    def shape(self):
        return self._real.shape

    @property
    def dtype(self):
        return self._real.dtype

    def __setitem__(self, key, value):
        w = simmpi.current_world()
        own = self._fs['owner'].setdefault(self._name, np.full(self._real.shape, -1, dtype=np.int64))
        r = simmpi.current_rank()
        region = own[key]
        clash = (region != -1) & (region != r)
        if np.any(clash):
            self._fs['overlaps'].append((self._name, r, int(np.count_nonzero(clash))))
            if w is not None:
                w.h5_overlaps = getattr(w, 'h5_overlaps', []) + [(self._fs['name'], self._name, r)]
        own[key] = r
        self._real[key] = value

    def __getitem__(self, key):
        return self._real[key]


class _FileProxy:
    def __init__(self, shared, comm):
        self._sh = shared
        self._comm = comm

    def create_dataset(self, name, shape=None, dtype=None, **kw):
        sh = self._sh
        sig = ('h5.create_dataset', name, tuple(int(x) for x in shape), str(np.dtype(dtype)))

        def result_for(i, c, order, cache):
            if 'd' not in cache:
                cache['d'] = sh['file'].create_dataset(name, shape, dtype=dtype, **kw)
            return cache['d']
        d = self._comm._coll(sig, None, result_for)
        return _DatasetProxy(d, self._comm, name, sh)

    def close(self):
        sh = self._sh

        def result_for(i, c, order, cache):
            if 'done' not in cache:
                sh['file'].close()
                cache['done'] = True
            return None
        self._comm._coll(('h5.close', sh['name']), None, result_for)

    def __getitem__(self, k):
        return _DatasetProxy(self._sh['file'][k], self._comm, k, self._sh)


def File(name, mode='r', driver=None, comm=None, **kw):
    if driver == 'mpio':
        if comm is None:
            raise ValueError('mpio driver needs a communicator')

        def result_for(i, c, order, cache):
            if 'sh' not in cache:
                cache['sh'] = {'file': real.File(name, mode), 'name': name, 'owner': {}, 'overlaps': []}
            return cache['sh']
        sh = comm._coll(('h5.File', name, mode), None, result_for)
        return _FileProxy(sh, comm)
    return real.File(name, mode, **kw)


class _Shim:
    File = staticmethod(File)

    def __getattr__(self, n):
        return getattr(real, n)


shim = _Shim()


def install_into(*modules):
    for m in modules:
        m.h5py = shim
