"""Reference building blocks for the operator checks (C10-C16): evaluation matrices of the
exact-rational spline reference."""
import math

import numpy as np

from . import refspline


def mkspace(n, a, b, d, per, uniform_flag, warp=None):
    """pygyro BSplines with n interpolation points on [a,b]; warp = optional list of relative
    cell widths (non-uniform breakpoints)."""
    from pygyro.splines.splines import make_knots, BSplines
    ncells = n if per else n - d
    if warp is None:
        br = np.linspace(a, b, ncells + 1)
    else:
        w = np.array([warp[i % len(warp)] for i in range(ncells)], dtype=float)
        br = a + (b - a) * np.concatenate([[0.0], np.cumsum(w)]) / w.sum()
        br[-1] = b
    return BSplines(make_knots(br, d, per), d, per, bool(uniform_flag and warp is None))


def eval_matrix(S, xs, der=0):
    """E with E @ u = (derivative of) the interpolant of nodal data u evaluated at xs
    (xs already inside the domain)."""
    rows = np.array([S.row(float(x), der) for x in xs])
    R = np.array([S.fold([float(v) for v in r]) for r in rows]) if S.per else rows
    return R @ S.Ainv_float()


def wrap(x, a, b):
    return a + np.mod(np.asarray(x, dtype=float) - a, b - a)


def feq(c, r, v):
    n0 = c.CN0 * math.exp(-c.kN0 * c.deltaRN0 * math.tanh((r - c.rp) / c.deltaRN0))
    Ti = c.CTi * math.exp(-c.kTi * c.deltaRTi * math.tanh((r - c.rp) / c.deltaRTi))
    return n0 * math.exp(-0.5 * v * v / Ti) / math.sqrt(2 * math.pi * Ti)


def n0_ref(c, r):
    """equilibrium density profile, coded from the documented formula (independent of pygyro.initialisation)"""
    return c.CN0 * np.exp(-c.kN0 * c.deltaRN0 * np.tanh((np.asarray(r, dtype=float) - c.rp) / c.deltaRN0))


def te_ref(c, r):
    return c.CTe * np.exp(-c.kTe * c.deltaRTe * np.tanh((np.asarray(r, dtype=float) - c.rp) / c.deltaRTe))


def dlogn0_ref(c, r):
    """n0'(r)/n0(r) = -kN0 / cosh^2((r - rp)/deltaRN0)"""
    return -c.kN0 / np.cosh((np.asarray(r, dtype=float) - c.rp) / c.deltaRN0) ** 2


def lagrange_weights(nodes, x):
    """product formula; exact 0/1 when x is a node"""
    w = []
    for a in nodes:
        p = 1.0
        for b in nodes:
            if b != a:
                p *= (x - b) / (a - b)
        w.append(p)
    return w


# Non-degenerate physical constants: the defaults tie electron and ion profiles together, make vMin = -vMax,
# B0 = 1 ..., so a slip between two such constants is invisible with them.
GENERIC = {'B0': 1.3, 'kTe': 0.31, 'deltaRTe': 1.6, 'CTe': 1.25, 'kTi': 0.27586, 'deltaRTi': 1.45, 'CTi': 1.1, 'kN0': 0.055, 'deltaRN0': 3.1, 'deltaR': 7.0}


def generic_constants(c, **extra):
    for k, v in dict(GENERIC, **extra).items():
        setattr(c, k, v)
    return c
