"""Helpers shared by the layout checks (C01-C04, C18): the global-array reference model."""
import itertools

import numpy as np

DTYPES = {'float64': np.float64, 'complex128': np.complex128, 'int64': np.int64}


def global_array(shape, dtype, k=0):
    """Global array whose entry at global index g is the unique number 1+ravel(g) (pattern k
    shifts/scales it so that two patterns never share a value)."""
    dt = DTYPES[dtype] if isinstance(dtype, str) else dtype
    n = int(np.prod(shape))
    G = (np.arange(n).reshape(shape) + 1) * (k + 1) + k * 7 * n
    G = G.astype(dt)
    if np.issubdtype(dt, np.complexfloating):
        G = G + 1j * (2 * G.real + 0.5)
    return G


def zero_bands(G):
    """copy of G that is exactly zero on half of every axis (whole sender-by-receiver tiles of a distributed array vanish):
    data movement must not depend on the values moved"""
    Z = np.array(G, copy=True)
    for ax in range(Z.ndim):
        sl = [slice(None)] * Z.ndim
        sl[ax] = slice(0, max(1, Z.shape[ax] // 2)) if ax % 2 == 0 else slice(Z.shape[ax] // 2, None)
        Z[tuple(sl)] = 0
    return Z


def poison_value(dtype):
    dt = np.dtype(DTYPES[dtype] if isinstance(dtype, str) else dtype)
    if dt.kind == 'i':
        return np.iinfo(dt).min
    if dt.kind == 'c':
        return complex(np.nan, np.nan)
    return np.nan


def block(G, layout):
    """The slice of the global array G that `layout` assigns to this rank, in layout order."""
    sl = tuple(slice(int(a), int(b)) for a, b in zip(layout.starts, layout.ends))
    return np.transpose(G, layout.dims_order)[sl]


def same(a, b):
    """Exact equality that treats NaN poison as unequal to everything (data are only moved)."""
    return a.shape == b.shape and np.array_equal(a, b)


def eta_for(shape):
    return [np.arange(n, dtype=float) for n in shape]


def perms(d):
    return list(itertools.permutations(range(d)))


def name_of(p):
    return ''.join(str(x) for x in p)


def run_items(size, make_ctx, items, do_item, mode='S', chooser=None, max_fail=25):
    """Run do_item(ctx, item) for every item on every rank of a fresh simulated world
    (ctx = make_ctx(rank), built collectively once per world).  An exception aborts the
    world; the failing item is recorded and the remaining items are re-run in a new world.

    Returns (results, construct_error, nworlds): results[i] = {'problems': [...], 'exc': str|None}.
    """
    from . import simmpi
    results = {}
    todo = list(range(len(items)))
    nworlds = 0
    nfail = 0
    while todo:
        progress = [-1] * size
        partial = [dict() for _ in range(size)]
        stage = ['construct'] * size

        def fn(r, todo=todo, progress=progress, partial=partial, stage=stage):
            ctx = make_ctx(r)
            stage[r] = 'items'
            for pos, i in enumerate(todo):
                progress[r] = pos
                partial[r][i] = do_item(ctx, items[i])
            progress[r] = len(todo)
            return True
        w = simmpi.World(size, chooser=chooser, mode=mode)
        nworlds += 1
        try:
            w.run(fn)
            for i in todo:
                probs = []
                for r in range(size):
                    probs.extend(partial[r].get(i, ['missing result on rank %d' % r]))
                results[i] = {'problems': probs, 'exc': None}
            todo = []
        except Exception as e:  # noqa
            fr = getattr(w, 'failed_rank', None)
            msg = '%s: %s' % (type(e).__name__, e)
            if fr is not None and stage[fr] == 'construct' or all(s == 'construct' for s in stage):
                return results, msg, nworlds
            fpos = progress[fr] if fr is not None else min(p for p in progress)
            fpos = min(max(fpos, 0), len(todo) - 1)
            done_upto = max(0, min(min(progress), fpos))
            for i in todo[:done_upto]:
                probs = []
                for r in range(size):
                    probs.extend(partial[r].get(i, ['missing result on rank %d' % r]))
                results[i] = {'problems': probs, 'exc': None}
            results[todo[fpos]] = {'problems': [], 'exc': msg, 'exc_type': type(e).__name__}
            nfail += 1
            rest = [i for pos, i in enumerate(todo) if pos >= done_upto and pos != fpos]
            if nfail >= max_fail:
                for i in rest:
                    results[i] = {'problems': [], 'exc': None, 'skipped': True}
                rest = []
            todo = rest
    return results, None, nworlds
