"""Harness for running whole pygyro set-ups inside a simulated MPI world (E1+E2)."""
import contextlib
import io
import json
import os
import sys

import numpy as np

from . import env, simmpi, simh5

_state = {}


def setup():
    """Install the fake mpi4py, import the pygyro modules that need shims, patch h5py."""
    if _state:
        return _state['MPI']
    env.setup()
    MPI = simmpi.install()
    import pygyro.model.grid as G
    import pygyro.initialisation.setups as S
    simh5.install_into(G, S)
    _state.update(MPI=MPI, G=G, S=S, orig_grid=S.compute_2d_process_grid)
    return MPI


def force_grid(nprocs):
    """Make setupCylindricalGrid / setupFromFile use the given process grid (None: restore).
    The answer is forced only when the setup function asks for the process count the grid was
    made for; for any other count (the plotting rank alone, or a wrongly computed size) the real
    function answers, so a wrong size stays visible."""
    S = _state['S']
    if nprocs is None:
        S.compute_2d_process_grid = _state['orig_grid']
    else:
        t = (int(nprocs[0]), int(nprocs[1]))
        orig = _state['orig_grid']
        S.compute_2d_process_grid = lambda npts, size: t if int(size) == t[0] * t[1] else orig(npts, size)


def run_world(nprocs, fn, chooser=None, mode='S', red_order=None, quiet=True, cwd=None, argv=None):
    """Run fn(rank) on nprocs[0]*nprocs[1] simulated ranks with the process grid forced.
    Process-global state (stdout, cwd, argv) is set once here, never per rank."""
    setup()
    force_grid(nprocs)
    w = simmpi.World(int(nprocs[0]) * int(nprocs[1]), chooser=chooser, mode=mode, red_order=red_order)
    old_out, old_cwd, old_argv = sys.stdout, os.getcwd(), sys.argv
    try:
        if quiet:
            sys.stdout = io.StringIO()
        if cwd is not None:
            os.chdir(cwd)
        if argv is not None:
            sys.argv = list(argv)
        res = w.run(fn)
    finally:
        sys.stdout = old_out
        os.chdir(old_cwd)
        sys.argv = old_argv
        force_grid(None)
    return res, w


def block_of(grid):
    """(dims_order, slices, copy of the live block) of a Grid on this rank."""
    l = grid.getLayout(grid.currentLayout)
    sl = tuple(slice(int(a), int(b)) for a, b in zip(l.starts, l.ends))
    return (tuple(l.dims_order), sl, np.array(grid.getAllData(), copy=True))


def assemble(parts, shape):
    """Global array (in natural dimension order) from the blocks of all ranks; NaN where
    nobody wrote; raises if two ranks disagree on an overlapping (replicated) cell."""
    dims = parts[0][0]
    A = np.full([shape[d] for d in dims], np.nan, dtype=parts[0][2].dtype)
    W = np.zeros(A.shape, dtype=bool)
    for d, sl, blk in parts:
        assert d == dims
        prev = A[sl]
        mask = W[sl]
        if mask.any() and not np.array_equal(prev[mask], blk[mask]):
            raise ValueError('replicated blocks differ between ranks')
        A[sl] = blk
        W[sl] = True
    return np.transpose(A, np.argsort(dims)), bool(W.all())


def global_index_arrays(layout):
    """list gi[d] = array (block shaped) of the global index along natural dimension d"""
    idx = np.meshgrid(*[np.arange(int(a), int(b)) for a, b in zip(layout.starts, layout.ends)], indexing='ij')
    gi = [None] * len(idx)
    for k, d in enumerate(layout.dims_order):
        gi[d] = idx[k]
    return gi


def write_constants(path, **kw):
    with open(path, 'w') as f:
        json.dump(kw, f)


def maxrel(a, b):
    a = np.asarray(a)
    b = np.asarray(b)
    den = max(1e-300, float(np.abs(b).max()))
    return float(np.abs(a - b).max()) / den


def run_driver(grid, cwd, tend, save, folder, constfile='c.json', tmax=100000, chooser=None, mode='S', clock=None):
    """One fullSimulation.main() run on the simulated world (cwd must contain constfile)."""
    setup()
    import fullSimulation

    def fn(r):
        fullSimulation.main()
    argv = ['fullSimulation.py', str(tend), str(tmax), '-c', constfile, '-f', folder, '-s', str(save)]
    old_time = sys.modules.get('time')
    try:
        if clock is not None:
            sys.modules['time'] = clock
        return run_world(grid, fn, cwd=cwd, argv=argv, chooser=chooser, mode=mode)
    finally:
        if clock is not None:
            sys.modules['time'] = old_time


def read_checkpoints(folder):
    import glob
    import h5py
    out = {}
    for fpath in sorted(glob.glob(os.path.join(folder, '*.h5'))):
        with h5py.File(fpath, 'r') as h:
            out[os.path.basename(fpath)] = (h['dset'][...], tuple(int(x) for x in h['dset'].attrs['Layout']))
    return out
