"""pgv -- model-checking machinery for the pygyro properties (see /verif/DESIGN.md)."""
