"""Exact-rational B-spline reference (engine E4).  Shares no code with pygyro or scipy.

Everything is computed in fractions.Fraction on the knot vector the implementation path
really uses: clamped / periodic extension of the breakpoints for the general path, the
unclamped uniform knot vector xmin+(k-3)*dx for the uniform-cubic fast path.
"""
from fractions import Fraction as F

import numpy as np


def knots_clamped(breaks, d):
    return [breaks[0]] * d + list(breaks) + [breaks[-1]] * d


def knots_periodic(breaks, d):
    P = breaks[-1] - breaks[0]
    return [b - P for b in breaks[-d - 1:-1]] + list(breaks) + [b + P for b in breaks[1:d + 1]]


def knots_cu(xmin, dx, nc):
    return [xmin + (k - 3) * dx for k in range(nc + 7)]


def find_cell(T, d, x):
    """Index s with T[s] <= x < T[s+1] inside the domain [T[d], T[-d-1]]; last cell closed."""
    lo = d
    hi = len(T) - 1 - d
    if x >= T[hi]:
        s = hi - 1
        while T[s] == T[s + 1]:
            s -= 1
        return s
    s = lo
    while not (T[s] <= x < T[s + 1]):
        s += 1
    return s


def bvals(T, d, x, s):
    """Values of the d+1 B-splines of degree d that are non-zero on cell s (Cox-de Boor)."""
    N = [F(1)]
    for k in range(1, d + 1):
        M = [F(0)] * (k + 1)
        for r in range(k):
            i = s - k + 1 + r
            den = T[i + k] - T[i]
            if den != 0:
                M[r] += N[r] * (T[i + k] - x) / den
                M[r + 1] += N[r] * (x - T[i]) / den
        N = M
    return N


def bders(T, d, x, s):
    """First derivatives of the d+1 B-splines non-zero on cell s."""
    N = bvals(T, d - 1, x, s)
    D = [F(0)] * (d + 1)
    for r in range(d):
        i = s - d + 1 + r
        den = T[i + d] - T[i]
        if den != 0:
            D[r] -= d * N[r] / den
            D[r + 1] += d * N[r] / den
    return D


def solve(A, b):
    """Exact Gauss-Jordan; raises ZeroDivisionError/StopIteration for singular systems."""
    n = len(A)
    M = [list(map(F, r)) + [F(x)] for r, x in zip(A, b)]
    for i in range(n):
        p = next(r for r in range(i, n) if M[r][i] != 0)
        M[i], M[p] = M[p], M[i]
        piv = M[i][i]
        M[i] = [v / piv for v in M[i]]
        for r in range(n):
            if r != i and M[r][i] != 0:
                f = M[r][i]
                M[r] = [a - f * c for a, c in zip(M[r], M[i])]
    return [M[i][n] for i in range(n)]


def inverse(A):
    n = len(A)
    M = [list(map(F, r)) + [F(int(i == j)) for j in range(n)] for i, r in enumerate(A)]
    for i in range(n):
        p = next(r for r in range(i, n) if M[r][i] != 0)
        M[i], M[p] = M[p], M[i]
        piv = M[i][i]
        M[i] = [v / piv for v in M[i]]
        for r in range(n):
            if r != i and M[r][i] != 0:
                f = M[r][i]
                M[r] = [a - f * c for a, c in zip(M[r], M[i])]
    return [row[n:] for row in M]


def open_nc(d):
    """Open Newton-Cotes nodes/weights on [0,1], exact for polynomials of degree d."""
    xs = [F(m + 1, d + 2) for m in range(d + 1)]
    A = [[x ** k for x in xs] for k in range(d + 1)]
    b = [F(1, k + 1) for k in range(d + 1)]
    return xs, solve(A, b)


def integrals(T, d):
    """Exact integral over the domain [T[d], T[-d-1]] of every (unwrapped) basis function."""
    nb = len(T) - d - 1
    out = [F(0)] * nb
    xs, ws = open_nc(d)
    for s in range(d, len(T) - d - 1):
        h = T[s + 1] - T[s]
        if h == 0:
            continue
        for x0, w in zip(xs, ws):
            b = bvals(T, d, T[s] + x0 * h, s)
            for k, bv in enumerate(b):
                out[s - d + k] += w * h * bv
    return out


class RefSpace:
    """Reference description of the spline space behind a pygyro BSplines object.

    Only *structural* information is taken from the object (degree, periodicity, the float
    breakpoints, which path it uses, its interpolation points); all numbers are recomputed."""

    def __init__(self, bs):
        self.d = int(bs.degree)
        self.per = bool(bs.periodic)
        self.cu = bool(bs.cubic_uniform)
        self.br = [F(float(x)) for x in bs.breaks]
        self.ncells = len(self.br) - 1
        if self.cu:
            dx = F(float(bs.knots[2]))
            self.T = knots_cu(F(float(bs.knots[0])), dx, self.ncells)
        else:
            self.T = (knots_periodic if self.per else knots_clamped)(self.br, self.d)
        self.n = self.ncells if self.per else self.ncells + self.d      # nbasis
        self.nc = self.ncells + self.d                                   # length of coefficient arrays
        self.a, self.b = self.br[0], self.br[-1]
        self.pts = [F(float(x)) for x in bs.greville]
        self._rows = {}
        self._A = None
        self._Ainv = None

    # ---------------------------------------------------------------- evaluation
    def row_exact(self, x, der=0, side='right'):
        """Exact values (der=0) or first derivatives (der=1) at x of all nc unwrapped basis
        functions, as a list of Fractions.  Right-continuous; last cell closed; side='left'
        gives the left limit at an interior breakpoint."""
        x = F(x)
        s = find_cell(self.T, self.d, x)
        if side == 'left' and x == self.T[s] and s > self.d:
            s -= 1
        b = bvals(self.T, self.d, x, s) if der == 0 else bders(self.T, self.d, x, s)
        row = [F(0)] * self.nc
        for k, v in enumerate(b):
            row[s - self.d + k] = v
        return row

    def row(self, x, der=0, side='right'):
        key = (float(x), der, side)
        r = self._rows.get(key)
        if r is None:
            r = np.array([float(v) for v in self.row_exact(F(float(x)), der, side)])
            self._rows[key] = r
        return r

    def wrap_x(self, x):
        """periodic image of x in [a,b)"""
        x = F(float(x))
        P = self.b - self.a
        return self.a + ((x - self.a) % P)

    def fold(self, row):
        """unwrapped row (nc entries) -> periodic basis (n entries)"""
        if not self.per:
            return list(row)
        out = list(row[:self.n])
        for k in range(self.d):
            out[k] = out[k] + row[self.n + k]
        return out

    # -------------------------------------------------------------- interpolation
    def collocation(self):
        if self._A is None:
            A = []
            for x in self.pts:
                A.append(self.fold(self.row_exact(x)))
            self._A = A
        return self._A

    def Ainv(self):
        if self._Ainv is None:
            self._Ainv = inverse(self.collocation())
        return self._Ainv

    def Ainv_float(self):
        if not hasattr(self, '_Ainvf'):
            self._Ainvf = np.array([[float(v) for v in r] for r in self.Ainv()])
        return self._Ainvf

    def cond_inf(self):
        """||A^-1||_inf (||A||_inf is 1 for a partition of unity)"""
        return float(max(sum(abs(v) for v in r) for r in self.Ainv()))

    def coeffs(self, u):
        """coefficient array (nc entries, periodic ones wrapped) of the interpolant of nodal data u"""
        c = self.Ainv_float() @ np.asarray(u)
        return np.concatenate([c, c[:self.d]]) if self.per else c

    def integrals_exact(self):
        return integrals(self.T, self.d)

    def weights_exact(self):
        """exact quadrature weights w = A^-T I (I = folded basis integrals)"""
        I = self.fold(self.integrals_exact())
        Ai = self.Ainv()
        n = self.n
        return [sum(Ai[j][i] * I[j] for j in range(n)) for i in range(n)]


def coeffs2d(S1, S2, U):
    W = np.array([S2.coeffs(U[i, :]) for i in range(U.shape[0])])
    return np.array([S1.coeffs(W[:, j]) for j in range(W.shape[1])]).T


def eval2d(S1, S2, C, x, y, d1=0, d2=0):
    return S1.row(x, d1) @ C @ S2.row(y, d2)


# ------------------------------------------------------------------ float evaluation (for feet)
def _bvals_f(T, d, x, s):
    N = [1.0]
    for k in range(1, d + 1):
        M = [0.0] * (k + 1)
        for r in range(k):
            i = s - k + 1 + r
            den = T[i + k] - T[i]
            if den != 0:
                M[r] += N[r] * (T[i + k] - x) / den
                M[r + 1] += N[r] * (x - T[i]) / den
        N = M
    return N


def _bders_f(T, d, x, s):
    N = _bvals_f(T, d - 1, x, s)
    D = [0.0] * (d + 1)
    for r in range(d):
        i = s - d + 1 + r
        den = T[i + d] - T[i]
        if den != 0:
            D[r] -= d * N[r] / den
            D[r + 1] += d * N[r] / den
    return D


def row_float(S, x, der=0):
    """float Cox-de Boor row of RefSpace S at x (same algorithm as the exact one, in doubles);
    used where many arbitrary points are needed (characteristic feet)."""
    if not hasattr(S, '_Tf'):
        S._Tf = [float(t) for t in S.T]
    T = S._Tf
    d = S.d
    hi = len(T) - 1 - d
    if x >= T[hi]:
        s = hi - 1
        while T[s] == T[s + 1]:
            s -= 1
    else:
        s = d
        while not (T[s] <= x < T[s + 1]):
            s += 1
            if s >= hi:
                s = hi - 1
                break
    b = _bvals_f(T, d, x, s) if der == 0 else _bders_f(T, d, x, s)
    row = np.zeros(S.nc)
    row[s - d:s + 1] = b
    return row
