"""Stateless, deviation-bounded exploration of choice sequences (engine E1/E5 explorer).

An execution is identified by its list of choices.  `run(chooser)` must execute the harness
from scratch, calling chooser(n_options) -> int at every choice point, and return an
observation.  Choice 0 is the default answer; any other answer is a *deviation*.
`explore` enumerates every execution with at most `bound` deviations (bound=None: all).
"""


class Diverged(Exception):
    pass


class _Chooser:
    def __init__(self, prefix):
        self.prefix = prefix
        self.points = []      # (n_options, choice)

    def __call__(self, n):
        i = len(self.points)
        c = self.prefix[i] if i < len(self.prefix) else 0
        if not (0 <= c < n):
            raise Diverged('choice %d at point %d out of range (%d options); prefix %r' % (c, i, n, self.prefix))
        self.points.append((n, c))
        return c


def run_once(run, prefix):
    ch = _Chooser(list(prefix))
    obs = run(ch)
    if len(ch.points) < len(prefix):
        raise Diverged('execution ended after %d choice points, prefix has %d' % (len(ch.points), len(prefix)))
    return obs, ch.points


def roots_for_part(run, part, nparts):
    """Partition an exploration over several workers by the position of the FIRST deviation:
    returns the list of root prefixes whose first non-default answer sits at a choice point i with
    i % nparts == part (part 0 additionally owns the all-default execution, prefix [])."""
    obs, points = run_once(run, [])
    roots = [[]] if part == 0 else []
    for i, (n, _) in enumerate(points):
        if i % nparts == part:
            for alt in range(1, n):
                roots.append([0] * i + [alt])
    return roots


def explore(run, bound=None, max_exec=None, on_exec=None, roots=None):
    """Enumerate executions.  Returns dict(executions, points_max, points_total, capped,
    distinct_choice_vectors).  on_exec(choices, obs, points) is called for every execution;
    if it returns a truthy value exploration stops early and that value is returned under
    'stopped'."""
    stack = [[]] if roots is None else [list(r) for r in roots][::-1]
    only_roots = roots is not None
    nexec = 0
    pmax = 0
    ptot = 0
    capped = False
    stopped = None
    while stack:
        prefix = stack.pop()
        obs, points = run_once(run, prefix)
        nexec += 1
        pmax = max(pmax, len(points))
        ptot += len(points)
        choices = [c for _, c in points]
        if on_exec is not None:
            stopped = on_exec(choices, obs, points)
            if stopped:
                break
        dev = sum(1 for c in choices[:len(prefix)] if c != 0)
        if only_roots and len(prefix) == 0:
            continue            # the all-default execution of a partitioned exploration: its children are the other roots
        if bound is None or dev < bound:
            # branch on every later point (all of them took the default answer 0)
            for i in range(len(points) - 1, len(prefix) - 1, -1):
                for alt in range(points[i][0] - 1, 0, -1):
                    stack.append(choices[:i] + [alt])
        if max_exec is not None and nexec >= max_exec and stack:
            capped = True
            break
    return {'executions': nexec, 'points_max': pmax, 'points_total': ptot,
            'capped': capped, 'stopped': stopped}


def world_chooser(ch):
    """Adapt a _Chooser (n -> index) to simmpi.World's chooser(enabled list) -> index."""
    return lambda enabled: ch(len(enabled))
