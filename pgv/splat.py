"""Structural lattice of 1-D spline spaces shared by C07-C09 (and used by C10-C16)."""
import itertools

import numpy as np


def space_descs(tier, max_degree=None, patterns=True):
    """List of dicts(degree, periodic, widths, flag, scale, offset).  Breakpoints are
    offset + scale * cumsum(widths); 'flag' is the `uniform` constructor argument (only ever
    True on uniform widths, as the constructor requires)."""
    out = []
    dmax = max_degree or (5 if tier == 'quick' else 5)
    extra = 3 if tier == 'quick' else 5
    alpha = (1, 2, 3) if tier == 'quick' else (1, 2, 3, 5)
    nvar = 3 if tier == 'quick' else 4
    for d in range(1, dmax + 1):
        for per in (False, True):
            nmin = d if per else 1
            for nc in range(nmin, d + extra + 1):
                pats = [(1,) * nc]
                if patterns and nc >= 2:
                    k = min(nc, nvar)
                    for head in itertools.product(alpha, repeat=k):
                        tail = tuple(1 + (i % 2) for i in range(nc - k))
                        w = head + tail
                        if len(set(w)) > 1 and w not in pats:
                            pats.append(w)
                if patterns and nc >= 3:
                    geo = tuple(2 ** i for i in range(nc))
                    for w in (geo, geo[::-1], (1,) * (nc - 1) + (9,), (9,) + (1,) * (nc - 1)):
                        if w not in pats:
                            pats.append(w)
                for w in pats:
                    uni = len(set(w)) == 1
                    # uniform=True is legal for every degree (setups.py always passes it); only degree 3 may take the fast path
                    for flag in ((False, True) if uni else (False,)):
                        out.append({'degree': d, 'periodic': per, 'widths': list(w), 'flag': flag, 'scale': 1.0, 'offset': 0.0})
                if patterns and nc >= 3:
                    # almost uniform (relative grading 1e-6 per cell) and a very small length unit: nothing may decide
                    # "uniform" with a tolerance
                    out.append({'degree': d, 'periodic': per, 'widths': [1 + 1e-6 * i for i in range(nc)], 'flag': False, 'scale': 1.0,
                                'offset': 0.0, 'tag': 'graded1e-6'})
                    out.append({'degree': d, 'periodic': per, 'widths': [1 + (i % 3) for i in range(nc)], 'flag': False, 'scale': 1e-8,
                                'offset': 0.0})
                # a scaled / shifted uniform copy (non-integer dx) and a wide uniform one
                out.append({'degree': d, 'periodic': per, 'widths': [1] * nc, 'flag': False, 'scale': 0.1, 'offset': 0.3})
                if d == 3:
                    out.append({'degree': d, 'periodic': per, 'widths': [1] * nc, 'flag': True, 'scale': 0.1, 'offset': 0.3})
                    out.append({'degree': d, 'periodic': per, 'widths': [1] * nc, 'flag': True, 'scale': 2.0, 'offset': -3.0})
    return out


def breaks_of(desc):
    w = np.asarray(desc['widths'], dtype=float)
    return desc['offset'] + desc['scale'] * np.concatenate([[0.0], np.cumsum(w)])


def make_space(desc, siblings=True):
    """The space of the description.  Before it, other spaces of the same size class are built in the same process (same degree,
    boundary type, cell count and flag; the same pattern on a domain twice and half as large, and the mirrored pattern): a space is
    never the first of its kind, so nothing the library remembers per process may be keyed by size class alone."""
    from pygyro.splines.splines import make_knots, BSplines
    if siblings:
        for sc, rev in ((2.0, False), (0.5, False), (1.0, True)):
            w = list(desc['widths'])[::-1] if rev else list(desc['widths'])
            if rev and w == list(desc['widths']):
                continue
            d2 = dict(desc, scale=desc['scale'] * sc, widths=w)
            b2 = BSplines(make_knots(breaks_of(d2), int(desc['degree']), bool(desc['periodic'])), int(desc['degree']), bool(desc['periodic']), bool(desc['flag']))
            getattr(b2, 'integrals', None)
    br = breaks_of(desc)
    kn = make_knots(br, int(desc['degree']), bool(desc['periodic']))
    return BSplines(kn, int(desc['degree']), bool(desc['periodic']), bool(desc['flag']))


def space_key(desc):
    return '%s-d%d-%s-w%s-s%g' % ('per' if desc['periodic'] else 'cl', desc['degree'],
                                 'cu' if (desc['flag'] and desc['degree'] == 3) else ('U' if desc['flag'] else 'nu'),
                                 desc.get('tag') or ''.join(map(str, desc['widths'])), desc['scale'])


def x_alphabet(breaks, tier, degree):
    """Evaluation points: every breakpoint, +-1 ulp around it (inside the domain), cell 1/3
    and 1/2 points, both end points and 1 ulp inside them; thorough adds the degree+1
    interior points k/(d+2) of every cell."""
    br = np.asarray(breaks, dtype=float)
    pts = set(br.tolist())
    for x in br[1:]:
        pts.add(float(np.nextafter(x, -np.inf)))
    for x in br[:-1]:
        pts.add(float(np.nextafter(x, np.inf)))
    for a, b in zip(br[:-1], br[1:]):
        pts.add(float(a + (b - a) / 3))
        pts.add(float(a + (b - a) / 2))
        if tier == 'thorough':
            for k in range(1, degree + 2):
                pts.add(float(a + (b - a) * k / (degree + 2)))
    return np.array(sorted(p for p in pts if br[0] <= p <= br[-1]))
