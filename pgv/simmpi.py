"""Simulated MPI world (engine E1 of DESIGN.md).

Every rank is the real pygyro code running on its own thread; exactly one thread holds
the baton.  The baton moves only at *scheduling points* (entry to a collective of this
module or of pgv.simh5, and whenever the running rank blocks or finishes).  The world is
driven by a *chooser*: a function that receives the list of enabled ranks in canonical
order (the rank that ran last first if it is still enabled, then ascending ranks) and
returns the index of the one to run.  Recording / replaying the chooser's answers makes an
execution reproducible, and enumerating them is what pgv.explore does.

Collective matching: the k-th collective a rank issues on a communicator is matched with
the k-th of every other member.  On arrival the rank's signature is compared with those
already in the slot under MPI's matching rules; a mismatch raises CollectiveMismatch.

Blocking modes:
  'S'  every collective is synchronising (strongest behaviour MPI allows -> deadlocks show)
  'N'  rooted collectives return as early as MPI allows (bcast root, gather/reduce/Reduce/
       Gatherv non-roots do not wait) so that ranks run ahead of each other.
"""
import sys
import threading
import types

import numpy as np

_tls = threading.local()


class Deadlock(Exception):
    pass


class CollectiveMismatch(Exception):
    pass


class WorldAborted(BaseException):
    pass


class ScheduleDiverged(Exception):
    pass


class Datatype:
    def __init__(self, name, size):
        self.name = name
        self.size = size

    def Get_size(self):
        return self.size

    def __repr__(self):
        return 'MPI.' + self.name


DOUBLE = Datatype('DOUBLE', 8)
DOUBLE_COMPLEX = Datatype('DOUBLE_COMPLEX', 16)
INT64 = Datatype('INT64_T', 8)
BYTE = Datatype('BYTE', 1)


def _auto_dtype(arr):
    k = arr.dtype
    if k == np.float64:
        return DOUBLE
    if k == np.complex128:
        return DOUBLE_COMPLEX
    if k == np.int64:
        return INT64
    return Datatype(str(k), k.itemsize)


class Op:
    def __init__(self, name, f):
        self.name = name
        self.f = f

    def __repr__(self):
        return 'MPI.' + self.name


SUM = Op('SUM', lambda a, b: a + b)
MIN = Op('MIN', lambda a, b: np.minimum(a, b))
MAX = Op('MAX', lambda a, b: np.maximum(a, b))
LAND = Op('LAND', lambda a, b: bool(a) and bool(b))
LOR = Op('LOR', lambda a, b: bool(a) or bool(b))
PROD = Op('PROD', lambda a, b: a * b)

ALL = 'all'


class _Shared:
    """State shared by all handles of one communicator."""

    def __init__(self, world, members, cid):
        self.world = world
        self.members = list(members)      # world ranks, in communicator-rank order
        self.cid = cid
        self.slots = []
        self.next = [0] * len(self.members)


class _Slot:
    __slots__ = ('arr', 'order', 'cache', 'ncomplete')

    def __init__(self):
        self.arr = {}       # comm rank -> (sig, payload)
        self.order = []     # arrival order (comm ranks)
        self.cache = {}
        self.ncomplete = 0


def _buf_spec(spec):
    """mpi4py buffer specification -> (flat ndarray view, Datatype, count in datatype units)."""
    if isinstance(spec, (tuple, list)):
        arr = spec[0]
        dt = spec[-1] if isinstance(spec[-1], Datatype) else None
    else:
        arr, dt = spec, None
    arr = np.asarray(arr) if not isinstance(arr, np.ndarray) else arr
    if not (arr.flags['C_CONTIGUOUS'] or arr.flags['F_CONTIGUOUS']):
        raise ValueError('ndarray is not contiguous')
    if dt is None:
        dt = _auto_dtype(arr)
    nbytes = arr.nbytes
    if nbytes % dt.size:
        raise ValueError('message: buffer length %d is not a multiple of datatype size %d' % (nbytes, dt.size))
    return arr, dt, nbytes // dt.size


def _bytes_view(arr):
    flat = arr.reshape(-1)
    if arr.size and not np.shares_memory(flat, arr):
        flat = arr.T.reshape(-1)          # F-contiguous: flatten in memory order
        if not np.shares_memory(flat, arr):
            raise ValueError('simmpi: cannot take a flat view of the buffer')
    return flat.view(np.uint8)


class Comm:
    """Per-rank handle of a communicator."""

    def __init__(self, shared, idx, cart=None):
        self._sh = shared
        self._idx = idx
        self._cart = cart

    # identity semantics as in mpi4py (handle equality)
    def __eq__(self, other):
        if isinstance(other, _WorldProxy):
            other = other._real()
        return isinstance(other, Comm) and other._sh is self._sh

    def __ne__(self, other):
        return not self.__eq__(other)

    def __hash__(self):
        return id(self._sh)

    def __repr__(self):
        return '<Comm %s rank %d/%d>' % (self._sh.cid, self._idx, len(self._sh.members))

    def Get_rank(self):
        return self._idx

    def Get_size(self):
        return len(self._sh.members)

    rank = property(Get_rank)
    size = property(Get_size)

    def __getattr__(self, name):
        if name.startswith('__') or name.startswith('_'):
            raise AttributeError(name)      # numpy / copy / pickle protocol probes
        raise NotImplementedError('simmpi: Comm.%s is not modelled' % name)

    # ------------------------------------------------------------------ core
    def _coll(self, sig, payload, result_for, needs=ALL, check=None):
        """Generic collective.

        sig        : tuple, must be equal on all members (first element = operation name);
                     elements wrapped in _Free are recorded but not compared
        payload    : this rank's contribution
        result_for : f(i, contributions, arrival_order, cache) -> result for comm rank i;
                     called once i's needs are met (all arrived for needs==ALL)
        needs      : ALL, or a set of comm ranks whose arrival rank i has to wait for (mode N)
        check      : optional f(my_idx, my_payload, other_idx, other_payload) raising
                     CollectiveMismatch for count/type incompatibilities
        """
        sh = self._sh
        w = sh.world
        me = self._idx
        w._sched_point()                       # arrival order is a scheduling decision
        k = sh.next[me]
        sh.next[me] += 1
        while len(sh.slots) <= k:
            sh.slots.append(_Slot())
        slot = sh.slots[k]
        cmp_sig = tuple(x for x in sig if not isinstance(x, _Free))
        rec_sig = tuple(x.v if isinstance(x, _Free) else x for x in sig)
        w._record(sh.cid, k, rec_sig)
        for j, (osig, opay) in slot.arr.items():
            if osig != cmp_sig:
                raise CollectiveMismatch('communicator %s, collective #%d: rank %d issues %r but rank %d issued %r'
                                         % (sh.cid, k, me, cmp_sig, j, osig))
            if check is not None:
                check(me, payload, j, opay)
        slot.arr[me] = (cmp_sig, payload)
        slot.order.append(me)
        n = len(sh.members)
        if w.mode == 'S' or needs is ALL:
            cond = (lambda: len(slot.arr) == n)
        else:
            need = set(needs)
            cond = (lambda: need.issubset(slot.arr.keys()))
        w._block_until(cond)
        res = result_for(me, {i: p for i, (s, p) in slot.arr.items()}, list(slot.order), slot.cache)
        slot.ncomplete += 1
        if slot.ncomplete == n:
            # free payload memory of completed slots (long driver runs)
            slot.arr = {i: (s, None) for i, (s, p) in slot.arr.items()}
            slot.cache = {}
        return res

    # ------------------------------------------------------------ collectives
    def Barrier(self):
        self._coll(('Barrier',), None, lambda i, c, o, cache: None)

    barrier = Barrier

    def Alltoall(self, sendbuf, recvbuf):
        n = self.Get_size()
        sarr, sdt, scount = _buf_spec(sendbuf)
        rarr, rdt, rcount = _buf_spec(recvbuf)
        if scount % n:
            raise ValueError('message: buffer length %d is not a multiple of communicator size %d' % (scount, n))
        if rcount % n:
            raise ValueError('message: buffer length %d is not a multiple of communicator size %d' % (rcount, n))
        sblk = scount // n * sdt.size
        rblk = rcount // n * rdt.size
        snap = _bytes_view(sarr).copy()
        if sblk != rblk:
            raise CollectiveMismatch('Alltoall: rank %d sends %d bytes per peer but receives %d bytes per peer' % (self._idx, sblk, rblk))

        def check(me, mine, other, theirs):
            if mine[1] != theirs[2] or mine[2] != theirs[1]:
                raise CollectiveMismatch('Alltoall: rank %d sends %d / receives %d bytes per peer, rank %d sends %d / receives %d'
                                         % (me, mine[1], mine[2], other, theirs[1], theirs[2]))

        def result_for(i, c, order, cache):
            rv = _bytes_view(c[i][3])
            for j in c:
                sj = c[j][0]
                b = c[j][1]
                rv[j * rblk:(j + 1) * rblk] = sj[i * b:(i + 1) * b]
            return None
        self._coll(('Alltoall', _Free((sblk, sdt.name))), (snap, sblk, rblk, rarr), result_for, check=check)

    def Allgather(self, sendbuf, recvbuf):
        n = self.Get_size()
        sarr, sdt, scount = _buf_spec(sendbuf)
        rarr, rdt, rcount = _buf_spec(recvbuf)
        if rcount % n:
            raise ValueError('message: buffer length %d is not a multiple of communicator size %d' % (rcount, n))
        sbytes = scount * sdt.size
        rblk = rcount // n * rdt.size
        snap = _bytes_view(sarr).copy()

        def check(me, mine, other, theirs):
            if mine[1] != theirs[2] or mine[2] != theirs[1]:
                raise CollectiveMismatch('Allgather: rank %d sends %d / expects %d bytes per rank, rank %d sends %d / expects %d'
                                         % (me, mine[1], mine[2], other, theirs[1], theirs[2]))
        if sbytes != rblk:
            raise CollectiveMismatch('Allgather: rank %d sends %d bytes but its receive buffer holds %d bytes per rank'
                                     % (self._idx, sbytes, rblk))

        def result_for(i, c, order, cache):
            rv = _bytes_view(c[i][3])
            for j in c:
                rv[j * rblk:(j + 1) * rblk] = c[j][0]
            return None
        self._coll(('Allgather', _Free((sbytes, sdt.name))), (snap, sbytes, rblk, rarr), result_for, check=check)

    def gather(self, obj, root=0):
        n = self.Get_size()

        def result_for(i, c, order, cache):
            return [c[j] for j in range(n)] if i == root else None
        needs = ALL if self._idx == root else ()
        return self._coll(('gather', root), obj, result_for, needs=needs)

    def allgather(self, obj):
        n = self.Get_size()
        return self._coll(('allgather',), obj, lambda i, c, o, cache: [c[j] for j in range(n)])

    def bcast(self, obj, root=0):
        needs = () if self._idx == root else (root,)
        return self._coll(('bcast', root), obj, lambda i, c, o, cache: c[root], needs=needs)

    def _combine(self, vals, order, op):
        order = self._sh.world._reduction_order(order)
        acc = None
        for j in order:
            acc = vals[j] if acc is None else op.f(acc, vals[j])
        return acc

    def reduce(self, obj, op=SUM, root=0):
        def result_for(i, c, order, cache):
            return self._combine(c, order, op) if i == root else None
        needs = ALL if self._idx == root else ()
        return self._coll(('reduce', root, op.name), obj, result_for, needs=needs)

    def allreduce(self, obj, op=SUM):
        def result_for(i, c, order, cache):
            if 'v' not in cache:
                cache['v'] = self._combine(c, order, op)
            return cache['v']
        return self._coll(('allreduce', op.name), obj, result_for)

    def Reduce(self, sendbuf, recvbuf, op=SUM, root=0):
        sarr, sdt, scount = _buf_spec(sendbuf)
        snap = np.array(sarr, copy=True)
        rarr = None
        if self._idx == root:
            rarr, rdt, rcount = _buf_spec(recvbuf)
            if rcount != scount or rdt.name != sdt.name:
                raise CollectiveMismatch('Reduce: root sends %d %s but receives %d %s' % (scount, sdt.name, rcount, rdt.name))

        def result_for(i, c, order, cache):
            if i == root:
                acc = self._combine({j: c[j][0] for j in c}, order, op)
                c[i][1][...] = np.asarray(acc).reshape(c[i][1].shape)
            return None
        needs = ALL if self._idx == root else ()
        self._coll(('Reduce', root, op.name, scount, sdt.name), (snap, rarr), result_for, needs=needs)

    def Gatherv(self, sendbuf, recvbuf, root=0):
        sarr, sdt, scount = _buf_spec(sendbuf)
        snap = np.array(sarr, copy=True).reshape(-1)
        rinfo = None
        n = self.Get_size()
        if self._idx == root:
            if not (isinstance(recvbuf, (tuple, list)) and len(recvbuf) == 4):
                raise NotImplementedError('simmpi: Gatherv root needs (buf, counts, displs, datatype)')
            rbuf, counts, displs, rdt = recvbuf
            counts = [int(x) for x in counts]
            displs = [int(x) for x in displs]
            if len(counts) != n or len(displs) != n:
                raise CollectiveMismatch('Gatherv: root gives %d counts / %d displacements for %d ranks' % (len(counts), len(displs), n))
            rflat = rbuf.reshape(-1)
            if rflat.dtype.itemsize != rdt.size:
                raise CollectiveMismatch('Gatherv: receive buffer dtype %s does not match %r' % (rflat.dtype, rdt))
            for j in range(n):
                if counts[j] and displs[j] + counts[j] > rflat.size:
                    raise CollectiveMismatch('Gatherv: block of rank %d exceeds the receive buffer' % j)
            rinfo = (rflat, counts, displs, rdt)

        def check(me, mine, other, theirs):
            ri = mine[1] or theirs[1]
            if ri is None:
                return
            for who, pay in ((me, mine), (other, theirs)):
                nbytes = pay[0].nbytes
                if nbytes != ri[1][who] * ri[3].size:
                    raise CollectiveMismatch('Gatherv: rank %d sends %d bytes, root expects %d' % (who, nbytes, ri[1][who] * ri[3].size))

        def result_for(i, c, order, cache):
            if i == root:
                rflat, counts, displs, rdt = c[i][1]
                for j in c:
                    if counts[j]:
                        rflat[displs[j]:displs[j] + counts[j]] = c[j][0].view(rflat.dtype) if c[j][0].dtype != rflat.dtype else c[j][0]
            return None
        needs = ALL if self._idx == root else ()
        self._coll(('Gatherv', root), (snap, rinfo), result_for, needs=needs, check=check)

    # ------------------------------------------------- communicator management
    def Create_cart(self, dims, periods=None, reorder=False):
        dims = [int(d) for d in dims]
        if int(np.prod(dims)) != self.Get_size():
            raise ValueError('Create_cart: dims %r do not multiply to communicator size %d' % (dims, self.Get_size()))
        sh = self._sh

        def result_for(i, c, order, cache):
            if 'sh' not in cache:
                k = sh.next[i] - 1
                cache['sh'] = _Shared(sh.world, sh.members, '%s/cart%d' % (sh.cid, k))
            return cache['sh']
        nsh = self._coll(('Create_cart', tuple(dims)), None, result_for)
        return Comm(nsh, self._idx, cart=dims)

    def Get_coords(self, rank):
        if self._cart is None:
            raise NotImplementedError('simmpi: Get_coords on a non-cartesian communicator')
        return [int(x) for x in np.unravel_index(rank, self._cart)]

    def Get_dim(self):
        return len(self._cart)

    def Sub(self, remain_dims):
        dims = self._cart
        if dims is None:
            raise NotImplementedError('simmpi: Sub on a non-cartesian communicator')
        remain = tuple(bool(x) for x in remain_dims)
        if len(remain) != len(dims):
            raise ValueError('Sub: remain_dims has wrong length')
        sh = self._sh

        def result_for(i, c, order, cache):
            if 'res' not in cache:
                k = sh.next[i] - 1
                groups = {}
                for r in range(len(sh.members)):
                    co = np.unravel_index(r, dims)
                    key = tuple(int(co[d]) for d in range(len(dims)) if not remain[d])
                    groups.setdefault(key, []).append(r)
                res = {}
                for key, v in groups.items():
                    nsh = _Shared(sh.world, [sh.members[r] for r in v], '%s/sub%d%r' % (sh.cid, k, key))
                    for pos, r in enumerate(v):
                        res[r] = (nsh, pos)
                cache['res'] = res
            return cache['res'][i]
        nsh, pos = self._coll(('Sub', remain), None, result_for)
        return Comm(nsh, pos, cart=[d for d, r in zip(dims, remain) if r])

    def Split(self, color=0, key=0):
        sh = self._sh

        def result_for(i, c, order, cache):
            if 'res' not in cache:
                k = sh.next[i] - 1
                groups = {}
                for r in c:
                    groups.setdefault(int(c[r][0]), []).append((int(c[r][1]), r))
                res = {}
                for col, v in groups.items():
                    v.sort()
                    nsh = _Shared(sh.world, [sh.members[r] for _, r in v], '%s/split%d[%d]' % (sh.cid, k, col))
                    for pos, (_, r) in enumerate(v):
                        res[r] = (nsh, pos)
                cache['res'] = res
            return cache['res'][i]
        nsh, pos = self._coll(('Split',), (color, key), result_for)
        return Comm(nsh, pos)


class _Free:
    """Signature element that is recorded in the trace but not compared across ranks."""

    def __init__(self, v):
        self.v = v


class _WorldProxy:
    """MPI.COMM_WORLD: resolves to the calling thread's rank handle (COMM_WORLD is captured
    as a default argument at import time, so it cannot be a per-world object)."""

    def _real(self):
        w = getattr(_tls, 'world', None)
        if w is None:
            return _serial_world().world_comm[0]
        return w.world_comm[_tls.rank]

    def __getattr__(self, name):
        return getattr(self._real(), name)

    def __eq__(self, other):
        return self._real() == other

    def __ne__(self, other):
        return not self.__eq__(other)

    def __hash__(self):
        return 0

    def __repr__(self):
        return '<COMM_WORLD proxy>'


COMM_WORLD = _WorldProxy()
_SERIAL = None


def _serial_world():
    global _SERIAL
    if _SERIAL is None:
        _SERIAL = World(1)
    return _SERIAL


class World:
    def __init__(self, size, chooser=None, mode='S', red_order=None, record=True):
        self.size = size
        self.mode = mode
        self.sh = _Shared(self, range(size), 'W')
        self.world_comm = [Comm(self.sh, i) for i in range(size)]
        self.trace = [[] for _ in range(size)]
        self.chooser = chooser
        self.red_order = red_order
        self.record = record
        self.current = 0
        self.points = []          # (n_enabled, chosen index, enabled tuple) at points with >1 option
        self.nsched = 0
        self.aborted = False
        self.running = False
        self.h5_written = {}      # used by simh5 for write-ownership checks

    # ------------------------------------------------------------- rank side
    def _record(self, cid, k, sig):
        if self.record:
            self.trace[self.current].append((cid, k) + sig)

    def _reduction_order(self, arrival):
        if self.red_order is None:
            return arrival
        return self.red_order(list(arrival))

    def _sched_point(self):
        if not self.running:
            return
        r = self.current
        self.state[r] = 'ready'
        self.main.release()
        self.sems[r].acquire()
        if self.aborted:
            raise WorldAborted()

    def _block_until(self, cond):
        if cond():
            return
        if not self.running:
            raise Deadlock('collective on a %d-rank communicator outside World.run' % self.size)
        r = self.current
        self.state[r] = 'blocked'
        self.cond[r] = cond
        self.main.release()
        self.sems[r].acquire()
        if self.aborted:
            raise WorldAborted()

    # -------------------------------------------------------- scheduler side
    def run(self, fn):
        """Run fn(rank) on every rank; returns the list of results.  Raises the first
        exception raised on any rank (or Deadlock)."""
        size = self.size
        self.sems = [threading.Semaphore(0) for _ in range(size)]
        self.main = threading.Semaphore(0)
        self.state = ['ready'] * size
        self.cond = [None] * size
        self.results = [None] * size
        self.exc = [None] * size
        self.running = True

        def body(r):
            _tls.world = self
            _tls.rank = r
            self.sems[r].acquire()
            try:
                if not self.aborted:
                    self.results[r] = fn(r)
            except WorldAborted:
                pass
            except BaseException as e:  # noqa
                self.exc[r] = e
            self.state[r] = 'done'
            self.main.release()

        threads = [threading.Thread(target=body, args=(r,), daemon=True) for r in range(size)]
        for t in threads:
            t.start()
        err = None
        last = -1
        while True:
            en = [r for r in range(size)
                  if self.state[r] == 'ready' or (self.state[r] == 'blocked' and self.cond[r]())]
            if not en:
                if all(s == 'done' for s in self.state):
                    break
                err = Deadlock('no rank can proceed: ' + '; '.join(
                    'rank %d %s after %r' % (r, self.state[r], self.trace[r][-1:]) for r in range(size)))
                break
            if last in en:
                en.remove(last)
                en.insert(0, last)
            if len(en) > 1:
                c = self.chooser(en) if self.chooser is not None else 0
                if not (0 <= c < len(en)):
                    err = ScheduleDiverged('choice %r out of range for enabled %r' % (c, en))
                    break
                self.points.append((len(en), c, tuple(en)))
            else:
                c = 0
            r = en[c]
            last = r
            self.nsched += 1
            self.state[r] = 'running'
            self.current = r
            self.sems[r].release()
            self.main.acquire()
            bad = [e for e in self.exc if e is not None]
            if bad:
                err = bad[0]
                break
        self.failed_rank = None
        if err is not None:
            for r in range(size):
                if self.exc[r] is err:
                    self.failed_rank = r
            self.aborted = True
            for r in range(size):
                if self.state[r] != 'done':
                    self.current = r
                    self.sems[r].release()
                    self.main.acquire()
        self.running = False
        for t in threads:
            t.join()
        if err is not None:
            raise err
        return self.results


def current_world():
    return getattr(_tls, 'world', None)


def current_rank():
    return getattr(_tls, 'rank', 0)


def install():
    """Put a fake `mpi4py` into sys.modules.  Must run before pygyro is imported."""
    if 'mpi4py' in sys.modules and getattr(sys.modules['mpi4py'], '_pgv_fake', False):
        return sys.modules['mpi4py.MPI']
    m = types.ModuleType('mpi4py')
    m._pgv_fake = True

    class _MPI(types.ModuleType):
        def __getattr__(self, name):
            raise NotImplementedError('simmpi: MPI.%s is not modelled' % name)
    M = _MPI('mpi4py.MPI')
    M.COMM_WORLD = COMM_WORLD
    M.Comm = Comm
    M.Intracomm = Comm
    M.Cartcomm = Comm
    M.DOUBLE = DOUBLE
    M.DOUBLE_COMPLEX = DOUBLE_COMPLEX
    M.COMPLEX16 = DOUBLE_COMPLEX
    M.INT64_T = INT64
    M.BYTE = BYTE
    M.SUM = SUM
    M.MIN = MIN
    M.MAX = MAX
    M.LAND = LAND
    M.LOR = LOR
    M.PROD = PROD
    M.Op = Op
    M.Datatype = Datatype
    M.__file__ = __file__
    m.MPI = M
    sys.modules['mpi4py'] = m
    sys.modules['mpi4py.MPI'] = M
    return M
