#!/venv/bin/python
"""MANIFEST.setup_cmd: nothing needs building; verify the framework imports and the simulated
MPI world works (a few shim unit tests)."""
import os
import sys

HERE = os.path.dirname(os.path.dirname(os.path.abspath(__file__)))
sys.path.insert(0, HERE)
os.chdir(HERE)
from pgv import env, simmpi, explore  # noqa
import numpy as np  # noqa

env.setup()
MPI = simmpi.install()


def t_alltoall():
    def fn(r):
        c = MPI.COMM_WORLD
        s = np.arange(6, dtype=float) + 10 * r
        d = np.empty(6)
        c.Alltoall(s, d)
        return d.tolist()
    res = simmpi.World(3).run(fn)
    assert res[1] == [2, 3, 12, 13, 22, 23], res


def t_cart():
    def fn(r):
        c = MPI.COMM_WORLD.Create_cart([2, 3], periods=[False, False])
        a = c.Sub([True, False])
        b = c.Sub([False, True])
        return c.Get_coords(r), a.Get_size(), a.Get_rank(), b.Get_size(), b.Get_rank(), a.allgather(r), b.allgather(r)
    res = simmpi.World(6).run(fn)
    assert res[4] == ([1, 1], 2, 1, 3, 1, [1, 4], [3, 4, 5]), res[4]


def t_mismatch_and_deadlock():
    def fn(r):
        c = MPI.COMM_WORLD
        if r == 0:
            c.bcast(1, root=0)
        else:
            c.reduce(1, root=0)
    try:
        simmpi.World(2).run(fn)
        raise SystemExit('mismatch not detected')
    except simmpi.CollectiveMismatch:
        pass

    def fn2(r):
        if r == 0:
            MPI.COMM_WORLD.Barrier()
    try:
        simmpi.World(2).run(fn2)
        raise SystemExit('deadlock not detected')
    except simmpi.Deadlock:
        pass


def t_explore():
    # all arrival orders of 3 ranks at one reduction: 6 combination orders must be realised
    seen = set()

    def run(ch):
        w = simmpi.World(3, chooser=explore.world_chooser(ch))
        order = []

        def fn(r):
            return MPI.COMM_WORLD.reduce([r], op=MPI.SUM, root=0)
        res = w.run(fn)
        return tuple(res[0])
    st = explore.explore(run, bound=None, on_exec=lambda ch, obs, pts: seen.add(obs) and None)
    assert len(seen) == 6, seen
    assert st['executions'] >= 6


def t_allgather_complex_as_double():
    # pygyro sends complex blocks as (buf, MPI.DOUBLE): counts are in doubles, data must arrive bit-exact
    def fn(r):
        c = MPI.COMM_WORLD
        s = (np.arange(3) + 10 * r) * (1 + 2j)
        d = np.zeros(9, dtype=complex)
        c.Allgather((s, MPI.DOUBLE), (d, MPI.DOUBLE))
        return d
    res = simmpi.World(3).run(fn)
    want = np.concatenate([(np.arange(3) + 10 * r) * (1 + 2j) for r in range(3)])
    assert all(np.array_equal(x, want) for x in res)


def t_counts():
    def fn(r):
        c = MPI.COMM_WORLD
        s = np.zeros(4 if r == 0 else 6)
        d = np.zeros(4 if r == 0 else 6)
        c.Alltoall(s, d)
    try:
        simmpi.World(2).run(fn)
        raise SystemExit('Alltoall count mismatch not detected')
    except simmpi.CollectiveMismatch:
        pass

    def fn2(r):
        MPI.COMM_WORLD.bcast(r, root=r)
    try:
        simmpi.World(2).run(fn2)
        raise SystemExit('root mismatch not detected')
    except simmpi.CollectiveMismatch:
        pass


def t_reduce_gatherv_split():
    def fn(r):
        c = MPI.COMM_WORLD
        out = np.zeros(2)
        c.Reduce(np.array([1.0 * r, 2.0]), out, op=MPI.MAX, root=1)
        sub = c.Split(r % 2, -r)                       # keys reversed: higher world rank gets sub-rank 0
        mine = np.full(r + 1, float(r))
        if c.Get_rank() == 2:
            buf = np.full(6, -1.0)
            c.Gatherv(mine, (buf, [1, 2, 3], np.array([0, 1, 3]), MPI.DOUBLE), 2)
        else:
            buf = None
            c.Gatherv(mine, mine, 2)
        return out.tolist(), sub.Get_rank(), sub.Get_size(), None if buf is None else buf.tolist()
    res = simmpi.World(3).run(fn)
    assert res[1][0] == [2.0, 2.0] and res[0][0] == [0.0, 0.0]
    assert (res[0][1], res[0][2]) == (1, 2) and (res[2][1], res[2][2]) == (0, 2) and (res[1][1], res[1][2]) == (0, 1)
    assert res[2][3] == [0.0, 1.0, 1.0, 2.0, 2.0, 2.0]


def t_mode_n_runs_ahead():
    # in mode N a non-root rank of a gather does not wait: it can finish before the root arrives
    order = []

    def fn(r):
        c = MPI.COMM_WORLD
        if r == 1:
            order.append('root-start')
        c.gather(r, root=1)
        order.append('done%d' % r)
    simmpi.World(2, mode='N').run(fn)
    assert order.index('done0') < order.index('root-start'), order
    order.clear()
    simmpi.World(2, mode='S').run(fn)
    assert order.index('done0') > order.index('root-start'), order


for t in (t_alltoall, t_cart, t_mismatch_and_deadlock, t_explore, t_allgather_complex_as_double, t_counts, t_reduce_gatherv_split, t_mode_n_runs_ahead):
    t()
print('selftest ok')
