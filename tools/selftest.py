#!/venv/bin/python
"""MANIFEST.setup_cmd: nothing needs building; verify the framework imports and the simulated
MPI world works (a few shim unit tests)."""
import os
import sys

HERE = os.path.dirname(os.path.dirname(os.path.abspath(__file__)))
sys.path.insert(0, HERE)
os.chdir(HERE)
from pgv import env, simmpi, explore  # noqa
import numpy as np  # noqa

env.setup()
MPI = simmpi.install()


def t_alltoall():
    def fn(r):
        c = MPI.COMM_WORLD
        s = np.arange(6, dtype=float) + 10 * r
        d = np.empty(6)
        c.Alltoall(s, d)
        return d.tolist()
    res = simmpi.World(3).run(fn)
    assert res[1] == [2, 3, 12, 13, 22, 23], res


def t_cart():
    def fn(r):
        c = MPI.COMM_WORLD.Create_cart([2, 3], periods=[False, False])
        a = c.Sub([True, False])
        b = c.Sub([False, True])
        return c.Get_coords(r), a.Get_size(), a.Get_rank(), b.Get_size(), b.Get_rank(), a.allgather(r), b.allgather(r)
    res = simmpi.World(6).run(fn)
    assert res[4] == ([1, 1], 2, 1, 3, 1, [1, 4], [3, 4, 5]), res[4]


def t_mismatch_and_deadlock():
    def fn(r):
        c = MPI.COMM_WORLD
        if r == 0:
            c.bcast(1, root=0)
        else:
            c.reduce(1, root=0)
    try:
        simmpi.World(2).run(fn)
        raise SystemExit('mismatch not detected')
    except simmpi.CollectiveMismatch:
        pass

    def fn2(r):
        if r == 0:
            MPI.COMM_WORLD.Barrier()
    try:
        simmpi.World(2).run(fn2)
        raise SystemExit('deadlock not detected')
    except simmpi.Deadlock:
        pass


def t_explore():
    # all arrival orders of 3 ranks at one reduction: 6 combination orders must be realised
    seen = set()

    def run(ch):
        w = simmpi.World(3, chooser=explore.world_chooser(ch))
        order = []

        def fn(r):
            return MPI.COMM_WORLD.reduce([r], op=MPI.SUM, root=0)
        res = w.run(fn)
        return tuple(res[0])
    st = explore.explore(run, bound=None, on_exec=lambda ch, obs, pts: seen.add(obs) and None)
    assert len(seen) == 6, seen
    assert st['executions'] >= 6


for t in (t_alltoall, t_cart, t_mismatch_and_deadlock, t_explore):
    t()
print('selftest ok')
