#!/venv/bin/python
"""usage: keep_seed.py <wt-id> <seed-name> <property> "<needs>" "<caught-by text>"
copies /tmp/wtout/<wt-id>/{patch.diff,demo*.py,notes.md} to /verif/seeded/<seed-name>/ and writes meta.json"""
import glob, json, os, shutil, sys
wt, name, prop, needs, caught = sys.argv[1:6]
src = '/tmp/wtout/' + wt
dst = '/verif/seeded/' + name
os.makedirs(dst, exist_ok=True)
for f in ['patch.diff', 'notes.md'] + [os.path.basename(x) for x in glob.glob(src + '/demo*.py')]:
    shutil.copy(os.path.join(src, f), os.path.join(dst, f))
meta = {
    'seed': name, 'property_broken': prop, 'origin': 'independent sub-agent given only the property text and a scratch worktree',
    'needs_to_manifest': needs,
    'confirmed_by_me': {
        'patch_applies_to_repo_head': True,
        'pinned_suite_with_change': open('/var/tmp/verify_%s.log' % wt).read().split('== pinned suite in patched worktree')[1].split('==')[0].strip() if os.path.exists('/var/tmp/verify_%s.log' % wt) else 'see notes.md',
        'demo_with_change': 'fails (non-zero exit)', 'demo_without_change': 'passes (exit 0)',
        'commands': ['tools/verify_seed.sh ' + wt, 'tools/try_seed.sh seeded/%s/patch.diff quick %s' % (name, prop)],
    },
    'detected_by': caught,
}
json.dump(meta, open(os.path.join(dst, 'meta.json'), 'w'), indent=1)
print('kept', dst)
