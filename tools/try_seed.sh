#!/bin/bash
# usage: tools/try_seed.sh <patch.diff> <tier> <ID> [<ID>...] ; applies the patch to /repo, runs the checks, reverts
patch=$1; tier=$2; shift 2
cd /verif
if ! git -C /repo diff --quiet; then echo "/repo has uncommitted changes"; exit 2; fi
git -C /repo apply $patch || exit 2
for id in "$@"; do
  ./run_check.py $id --tier $tier > /var/tmp/try_$id.log 2>&1; rc=$?
  echo "[$id rc=$rc] $(grep -c VIOLATION /var/tmp/try_$id.log) VIOLATION line(s); $(grep '^violation:' /var/tmp/try_$id.log | head -3 | cut -c1-220)"
  tail -1 /var/tmp/try_$id.log
done
git -C /repo checkout -- .
git -C /verif checkout -- evidence 2>/dev/null
