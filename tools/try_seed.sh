#!/bin/bash
# usage: tools/try_seed.sh <patch.diff> <tier> <ID> [<ID>...]
# Runs the checks against a scratch copy of /repo with the patch applied (VERIF_REPO), so that
# /repo itself is never touched while background sweeps use it; evidence and replays of these runs
# go to a scratch directory (VERIF_OUT), never to /verif/evidence.  With TRY_IN_REPO=1 the patch is
# applied to /repo itself and reverted afterwards (the procedure of the brief).
patch=$(readlink -f $1); tier=$2; shift 2
cd "$(dirname "$0")/.."
out=/var/tmp/try-out-$$; mkdir -p $out
if [ "${TRY_IN_REPO:-0}" = 1 ]; then
  if ! git -C /repo diff --quiet; then echo "/repo has uncommitted changes"; exit 2; fi
  git -C /repo apply $patch || exit 2
  tree=/repo
else
  tree=/var/tmp/repo-seed-$$
  rm -rf $tree; mkdir -p $tree
  rsync -a --exclude .git --exclude pygyro.egg-info /repo/ $tree/
  (cd $tree && git apply $patch) || { rm -rf $tree $out; exit 2; }
fi
for id in "$@"; do
  VERIF_REPO=$tree VERIF_OUT=$out ./run_check.py $id --tier $tier > $out/try_$id.log 2>&1; rc=$?
  echo "[$id rc=$rc] $(grep -c '^VIOLATION' $out/try_$id.log) VIOLATION line(s); $(grep '^violation:' $out/try_$id.log | head -3 | cut -c1-220)"
  tail -1 $out/try_$id.log
done
if [ "${TRY_IN_REPO:-0}" = 1 ]; then git -C /repo checkout -- .; else rm -rf $tree; fi
rm -rf $out
