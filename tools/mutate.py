#!/venv/bin/python
"""Systematic mutation audit of the checks (development aid; complements the sub-agent seeds).

usage: tools/mutate.py <file relative to the repository> <every> <offset> <ID> [<ID>...]

Enumerates small syntactic mutants of one library file (comparison boundary, arithmetic sign,
integer constant +-1, and/or, augmented assignment, deleted simple statement), takes every
<every>-th starting at <offset>, writes each into a scratch copy of /repo (VERIF_REPO) and runs
the quick tier of the given checks in order until one reports a violation.  Results go to
/var/tmp/pygyro-mut/results.jsonl (one JSON object per mutant: file, line, kind, before, after,
killed_by or null).  Survivors are triaged by hand: equivalent mutant, outside every
property, or a hole in a check.  Evidence/replays of these runs are redirected (VERIF_OUT).
"""
import ast
import json
import os
import subprocess
import sys
import time

ROOT = os.environ.get('MUT_ROOT', '/var/tmp/pygyro-mut')
TREE = ROOT + '/repo'

CMP = {ast.Lt: ('<', '<='), ast.LtE: ('<=', '<'), ast.Gt: ('>', '>='), ast.GtE: ('>=', '>'), ast.Eq: ('==', '!='), ast.NotEq: ('!=', '==')}
BIN = {ast.Add: ('+', '-'), ast.Sub: ('-', '+'), ast.Mult: ('*', '/'), ast.Div: ('/', '*'), ast.FloorDiv: ('//', '/'), ast.Mod: ('%', '*')}
AUG = {ast.Add: ('+=', '-='), ast.Sub: ('-=', '+='), ast.Mult: ('*=', '/='), ast.Div: ('/=', '*=')}


def mutants(src):
    tree = ast.parse(src)
    lines = src.split('\n')
    out = []
    skip = set()
    for node in ast.walk(tree):
        if isinstance(node, (ast.Assert, ast.Raise)):
            for sub in ast.walk(node):
                skip.add(id(sub))
        if isinstance(node, (ast.FunctionDef, ast.ClassDef, ast.Module)):
            b = node.body
            if b and isinstance(b[0], ast.Expr) and isinstance(getattr(b[0], 'value', None), ast.Constant) and isinstance(b[0].value.value, str):
                for sub in ast.walk(b[0]):
                    skip.add(id(sub))
        if isinstance(node, ast.FunctionDef):
            for sub in ast.walk(node.args):
                skip.add(id(sub))
            for d in node.decorator_list:
                for sub in ast.walk(d):
                    skip.add(id(sub))
            if node.returns is not None:
                for sub in ast.walk(node.returns):
                    skip.add(id(sub))
        if isinstance(node, ast.AnnAssign):
            for sub in ast.walk(node.annotation):
                skip.add(id(sub))
        if isinstance(node, (ast.Import, ast.ImportFrom)):
            skip.add(id(node))

    def between(a, b, old, new, kind, node):
        # operator text between two sub-expressions on one line
        if a.end_lineno != b.lineno:
            return
        ln = a.end_lineno - 1
        seg = lines[ln][a.end_col_offset:b.col_offset]
        k = seg.find(old)
        if k < 0 or seg.strip(' ()') != old:
            return
        col = a.end_col_offset + k
        out.append({'line': ln + 1, 'col': col, 'old': old, 'new': new, 'kind': kind})

    for node in ast.walk(tree):
        if id(node) in skip:
            continue
        if isinstance(node, ast.Compare) and len(node.ops) == 1 and type(node.ops[0]) in CMP:
            o, n = CMP[type(node.ops[0])]
            between(node.left, node.comparators[0], o, n, 'compare', node)
        elif isinstance(node, ast.BinOp) and type(node.op) in BIN:
            o, n = BIN[type(node.op)]
            between(node.left, node.right, o, n, 'arith', node)
        elif isinstance(node, ast.BoolOp) and len(node.values) == 2:
            o, n = ('and', 'or') if isinstance(node.op, ast.And) else ('or', 'and')
            between(node.values[0], node.values[1], o, n, 'bool', node)
        elif isinstance(node, ast.AugAssign) and type(node.op) in AUG:
            o, n = AUG[type(node.op)]
            between(node.target, node.value, o, n, 'augassign', node)
        elif isinstance(node, ast.Constant) and type(node.value) is int and node.lineno == node.end_lineno:
            txt = lines[node.lineno - 1][node.col_offset:node.end_col_offset]
            if txt == str(node.value):
                for nv in ((1,) if node.value == 0 else (node.value - 1, node.value + 1)):
                    out.append({'line': node.lineno, 'col': node.col_offset, 'old': txt, 'new': str(nv), 'kind': 'const'})
        elif isinstance(node, ast.UnaryOp) and isinstance(node.op, ast.USub) and node.lineno == node.end_lineno:
            out.append({'line': node.lineno, 'col': node.col_offset, 'old': '-', 'new': '+', 'kind': 'neg'})
    # deleted simple statements (not the only statement of a block, not docstrings)
    for node in ast.walk(tree):
        for field in ('body', 'orelse'):
            body = getattr(node, field, None)
            if not isinstance(body, list) or len(body) < 2 or isinstance(node, (ast.Module, ast.ClassDef)):
                continue
            for st in body:
                if id(st) in skip or not isinstance(st, (ast.Assign, ast.AugAssign, ast.Expr)):
                    continue
                if isinstance(st, ast.Expr) and isinstance(st.value, ast.Constant):
                    continue
                out.append({'line': st.lineno, 'end_line': st.end_lineno, 'col': st.col_offset, 'old': lines[st.lineno - 1].strip()[:60], 'new': 'pass', 'kind': 'delete'})
    out.sort(key=lambda m: (m['line'], m['col'], m['kind'], m['new']))
    return out


def apply(src, m):
    lines = src.split('\n')
    ln = m['line'] - 1
    if m['kind'] == 'delete':
        indent = lines[ln][:m['col']]
        lines[ln:m['end_line']] = [indent + 'pass'] + [''] * (m['end_line'] - m['line'])
    else:
        L = lines[ln]
        assert L[m['col']:m['col'] + len(m['old'])] == m['old'], (L, m)
        lines[ln] = L[:m['col']] + m['new'] + L[m['col'] + len(m['old']):]
    return '\n'.join(lines)


def main():
    rel, every, offset = sys.argv[1], int(sys.argv[2]), int(sys.argv[3])
    ids = sys.argv[4:]
    verif = os.path.dirname(os.path.dirname(os.path.abspath(__file__)))
    os.makedirs(ROOT, exist_ok=True)
    subprocess.check_call(['rsync', '-a', '--delete', '--exclude', '.git', '--exclude', 'pygyro.egg-info', '--exclude', '__pycache__', '/repo/', TREE + '/'])
    src = open(os.path.join('/repo', rel)).read()
    ms = mutants(src)
    pick = ms[offset::every]
    print('%s: %d mutants, running %d' % (rel, len(ms), len(pick)), flush=True)
    envv = dict(os.environ, VERIF_REPO=TREE, VERIF_OUT=ROOT + '/out', VERIF_NO_RERUN='1', VERIF_FAILFAST='1', VERIF_TIMEOUT_CAP_S='150')
    path = os.path.join(TREE, rel)
    try:
        for m in pick:
            new = apply(src, m)
            try:
                compile(new, rel, 'exec')
            except SyntaxError:
                continue
            open(path, 'w').write(new)
            killed = None
            t0 = time.time()
            tails = {}
            for cid in ids:
                p = subprocess.run([os.path.join(verif, 'run_check.py'), cid, '--tier', 'quick'], env=envv, capture_output=True, text=True, cwd=verif)
                v = [l for l in p.stdout.split('\n') if l.startswith('violation:')]
                tails[cid] = (p.returncode, (v[0][:200] if v else p.stdout.strip().split('\n')[-1][:200]))
                if p.returncode != 0:
                    killed = cid
                    break
            rec = dict(m, file=rel, src=src.split('\n')[m['line'] - 1].strip()[:140], killed_by=killed, detail=tails.get(killed, None) if killed else tails, wall=round(time.time() - t0, 1))
            with open(ROOT + '/results.jsonl', 'a') as f:
                f.write(json.dumps(rec) + '\n')
            print('%s:%d %s %r->%r : %s' % (rel, m['line'], m['kind'], m['old'], m['new'], killed or 'SURVIVED'), flush=True)
    finally:
        open(path, 'w').write(src)


if __name__ == '__main__':
    main()
