#!/bin/bash
# usage: tools/verify_seed.sh <worktree-id> ; confirms a sub-agent's seeded change in its scratch worktree
# (patch applies to clean HEAD, pinned suite still passes, demo fails with / passes without)
id=$1; wt=/tmp/wt/$id; out=/tmp/wtout/$id
set -u
demo=$(ls $out/demo*.py | head -1)
echo "== patch applies to clean /repo HEAD?"; git -C /repo apply --check $out/patch.diff && echo yes
echo "== worktree diff equals patch?"; diff <(git -C $wt diff) $out/patch.diff >/dev/null && echo same || echo DIFFERENT
echo "== pinned suite in patched worktree"; (cd $wt && /venv/bin/python -m pytest -q -p no:cacheprovider --timeout=900 --continue-on-collection-errors -n 16 2>&1 | tail -1)
echo "== demo on patched tree (expect non-zero)"; (cd /var/tmp && /venv/bin/python $demo $wt >/var/tmp/demo_$id.with 2>&1; echo "exit $?"; tail -3 /var/tmp/demo_$id.with)
echo "== demo on clean /repo (expect 0)"; (cd /var/tmp && /venv/bin/python $demo /repo >/var/tmp/demo_$id.without 2>&1; echo "exit $?"; tail -3 /var/tmp/demo_$id.without)
