#!/bin/bash
# usage: tools/run_all.sh [quick|thorough] ; runs every check, prints one line each
tier=${1:-quick}
cd "$(dirname "$0")/.."
for i in $(seq -w 1 20); do
  id=C$i
  s=$(date +%s)
  ./run_check.py $id --tier $tier > /var/tmp/all_$id.log 2>&1; rc=$?
  echo "$id rc=$rc $(( $(date +%s) - s ))s  $(grep -c '^VIOLATION' /var/tmp/all_$id.log) viol  $(grep -c '^KNOWN-FINDING' /var/tmp/all_$id.log) known | $(tail -1 /var/tmp/all_$id.log | cut -c1-150)"
done
