#!/bin/bash
# Runs every kept seed against the quick check of the property it breaks (scratch copy of /repo);
# prints DETECTED / MISSED per seed.  usage: tools/check_seeds.sh [name-filter] [stream k of n: K N]
# SKIP_FILE=<file with one seed name per line> leaves those seeds out (resuming an interrupted run).
cd "$(dirname "$0")/.."
k=${2:-0}; n=${3:-1}; i=0
for d in seeded/*${1:-}*/; do
  name=$(basename $d)
  if [ -n "${SKIP_FILE:-}" ] && grep -qx "$name" "$SKIP_FILE"; then continue; fi
  i=$((i+1)); if [ $((i % n)) -ne $k ]; then continue; fi
  prop=$(/venv/bin/python -c "import json;m=json.load(open('$d/meta.json'));print(m.get('check_with') or m['property_broken'])")
  out=$(tools/try_seed.sh $d/patch.diff quick $prop 2>&1 | head -1)
  if echo "$out" | grep -q "rc=1"; then echo "DETECTED $name by $prop: $(echo $out | cut -c1-160)"; else echo "MISSED   $name by $prop: $out"; fi
done
