#!/bin/bash
# Runs every kept seed against the quick check of the property it breaks (scratch copy of /repo);
# prints DETECTED / MISSED per seed.  usage: tools/check_seeds.sh [name-filter]
cd "$(dirname "$0")/.."
for d in seeded/*${1:-}*/; do
  name=$(basename $d)
  prop=$(/venv/bin/python -c "import json;print(json.load(open('$d/meta.json'))['property_broken'])")
  out=$(tools/try_seed.sh $d/patch.diff quick $prop 2>&1 | head -1)
  if echo "$out" | grep -q "rc=1"; then echo "DETECTED $name by $prop: $(echo $out | cut -c1-160)"; else echo "MISSED   $name by $prop: $out"; fi
done
