#!/venv/bin/python
"""Regenerates /verif/MANIFEST.json from the table below (keeps it schema-valid)."""
import json
import os

HERE = os.path.dirname(os.path.dirname(os.path.abspath(__file__)))

CHECKS = {
    'C01': dict(cat='exploration', tech='bounded-exhaustive enumeration of (shape, process grid, layout set, pair, dtype, buffer) executed on the real LayoutHandler in a simulated MPI world, compared with a global-array reference model',
                text='Every ordered layout pair of every enumerated (array rank 2-4, shape, grid, layout set) is executed on all simulated ranks of the real code and compared exactly with a global array; exhaustive within the stated alphabets, which contain every extent class (p, p+1, 2p-1, 2p, 2p+1), grids with leading/trailing extent 1 and routes of 1-4 steps of both buffer parities.',
                note='trusted: simmpi (Alltoall, Create_cart, Sub semantics), numpy; data movement is exercised with one injective pattern per dtype and one pattern with exactly-zero bands; every ordered pair is requested twice per handler.', ref='DESIGN.md section 3 C01'),
    'C02': dict(cat='exploration', tech='exhaustive enumeration of (extent, process count, rank, ordering) for directly constructed Layout objects plus all Grid accessors on every rank of simulated MPI worlds, against an independent partition/coordinate reference',
                text='Every Layout for n up to the bound, every p<=n, every rank coordinate (1-D and 2-D grids, all orderings for d<=3) is checked for exact balanced tiling and consistency of all advertised quantities; every Grid accessor with every argument is checked on every rank of handler- and swapper-backed grids, blocks of all ranks must cover the global index space exactly once.',
                note='any balanced contiguous arrangement is accepted; sufficiency of bufferSize is checked with arrays of exactly the advertised size through the machinery of C01 (handlers) and C03 (swappers); layouts handed out by a manager are re-checked after its construction.', ref='DESIGN.md section 3 C02'),
    'C03': dict(cat='model_checking', tech='explicit-state exploration of the real LayoutSwapper in a simulated MPI world: all length-3 layout sequences per configuration, dead buffers poisoned, global-array reference model',
                text='State = (configuration, current layout / manager); every transition (transpose to any layout, buffer or not) from every state is executed on the real object on all ranks, reached through every predecessor (all triples a->b->c), and compared exactly with a global array, for every accepted grouping / shape / 2-D grid of the alphabet, float and complex (gather through MPI.DOUBLE).',
                note='trusted: simmpi Allgather/Alltoall byte-count semantics; dead data represented by poison values; groupings the constructor refuses are counted as rejected; for two groupings a swapper giving the same layout names other orderings is used and checked first (state keyed by names must not leak between managers).', ref='DESIGN.md section 3 C03'),
    'C04': dict(cat='model_checking', tech='breadth-first explicit-state search to closure over the real Grid object (alphabet setLayout/write/save/restore/free) on all ranks of a simulated MPI world, one-array reference model, NaN-poisoned dead regions',
                text='For each configuration the reachable state space of the Grid (layout, save flag, saved content, buffer-index permutation, live content, swapper manager) is searched to closure with the real methods as transition function; every transition is checked against a one-array model including refusal of illegal save/restore/free; closure covers operation sequences of any length.',
                note='trusted: simmpi; the canonical-state abstraction (dead buffer regions are arbitrary, represented by NaN) - argument in DESIGN.md; uses Grid internals only for poisoning and the state key; plus two-manager cases (same names, other orderings, lockstep through every ordered pair of layouts).', ref='DESIGN.md section 3 C04'),
    'C07': dict(cat='exploration', tech='bounded-exhaustive enumeration of a structural lattice of spline spaces x evaluation-point classes x unit coefficient vectors on every entry point, against exact-rational Cox-de Boor',
                text='All spaces of the lattice (degree, cells, boundary, breakpoint widths, fast path, scale), all x classes (breakpoints, +-1 ulp, interior, end points), all unit coefficient vectors (linearity then decides every coefficient vector) on every 1-D/2-D entry point and derivative flag are compared with an exact rational evaluation; partition of unity, non-negativity, periodic end-point identities and fast-path/general-path agreement included.',
                note='trusted: pgv.refspline (exact Fractions, independent of pygyro/scipy); linearity in the coefficients (checked by superposition in thorough); x inside a cell covered through >= d+3 points per cell (polynomial identity).', ref='DESIGN.md section 3 C07'),
    'C08': dict(cat='exploration', tech='bounded-exhaustive enumeration of the spline-space lattice x unit nodal data (1-D and 2-D, real and complex) against the exact rational collocation solve',
                text='Every unit data vector (and monomials, badly scaled and complex vectors) on every space of the lattice is interpolated by the real code; coefficients are compared with the exact rational solution, data reproduction and polynomial reproduction are checked through the real eval, wrapped coefficients must be consistent; 2-D: all e_i x e_j on pairs covering every boundary combination and unequal degrees.',
                note='trusted: pgv.refspline; tolerance scaled by the exactly computed norm of the inverse collocation matrix.', ref='DESIGN.md section 3 C08'),
    'C09': dict(cat='exploration', tech='bounded-exhaustive enumeration of the spline-space lattice: stored basis integrals and quadrature weights (repeated calls included) against exact rational integrals and weights',
                text='For every space of the lattice the stored basis integrals (folded on periodic spaces) and the quadrature coefficients, requested repeatedly on the same objects, are compared with exact rational values; weight sum, equality on uniform periodic spaces and exactness for every unit data vector follow.',
                note='trusted: pgv.refspline exact integration (open Newton-Cotes in Fractions).', ref='DESIGN.md section 3 C09'),
    'C05': dict(cat='exploration', tech='exhaustive enumeration of admissible process grids x configurations on the simulated MPI world; per-slice wiring oracle (serial operator objects called with global indices) + differential against the serial world; deviation-bounded schedule exploration of a 2x2 run',
                text='For every admissible process grid up to the rank bound the real set-up, every grid-level operator, the density/quasi-neutrality pipeline and complete driver steps are executed on all simulated ranks; each local slice must equal the slice-level operator with the parameters of its global indices, assembled fields must equal the serial world, and a 2x2 pipeline is explored under all schedules within the deviation bound.',
                note='slice-level operators are decided by C10-C13/C16; trusted: simmpi/simh5; grids and sizes beyond the bound are not covered.', ref='DESIGN.md section 3 C05'),
    'C06': dict(cat='model_checking', tech='stateless schedule exploration (exhaustive for 2-rank worlds, deviation-bounded otherwise) of the real code under a simulated MPI world in two blocking modes with collective-signature matching; exhaustive exploration of route-search tie-break answers (hash-seed seam) and of single clock jumps in the driver',
                text='Every execution within the bounds is checked for matching collective signatures (operation, root, count, datatype), absence of deadlock, termination, schedule-independent per-rank traces and outcomes; the route map is shown independent of every answer of min() over the unvisited set for all graphs on <= 4 layouts x all insertion orders and for real layout sets (6-cycle included); the seam is bound to the code by runs under 8-16 real hash seeds.',
                note='trusted: simmpi matching rules and blocking modes S/N bracket conforming MPI; deviation bounds are reported; no random schedules (sampling is a different family).', ref='DESIGN.md section 3 C06'),
    'C10': dict(cat='exploration', tech='bounded-exhaustive enumeration of (grid sizes, theta spline path, iota, displacement classes, (r,v) indices) x basis data against an independent implementation of the stated formula with exact-rational theta interpolation',
                text='Every step() of the enumerated operator configurations is compared at all nodes with the field-aligned Lagrange/spline formula computed independently (full operator matrix through unit impulses for selected configurations); constants, z-shift commutation and integer-displacement circular shifts are checked as identities.',
                note='trusted: pgv.refspline; linearity in f; displacement and twist classes as listed in the evidence rule; grid-level clause: gridStep on simulated process grids of a tight torus against per-surface serial steps.', ref='DESIGN.md section 3 C10'),
    'C11': dict(cat='exploration', tech='bounded-exhaustive enumeration of (n_v, spline path, boundary mode, shift class incl. several domain widths, sign via c and via dt, radius) x unit/zero/dense data against exact-rational interpolation matrices and a closed-form equilibrium',
                text='Every step() of the lattice is compared with the interpolant evaluated at v-c*dt (exact-rational evaluation matrices) and the stated boundary rule per mode; feet within rounding distance of a boundary are excluded as the property allows; the grid-level clause is decided by the wiring oracle of C05.',
                note='trusted: pgv.refspline; grid-level clause: gridStep / gridStepKeepGradient on simulated process grids against per-line serial steps.', ref='DESIGN.md section 3 C11'),
    'C12': dict(cat='exploration', tech='bounded-exhaustive enumeration of (grid, spline path, potential, dt, v, boundary mode, time scheme) against an independent Heun / clipped fixed-point implementation; watchdog for termination',
                text='Feet arrays and values of every enumerated step are compared with an independent implementation of the stated scheme (nodes whose stage feet are within rounding distance of the radial boundary skipped and counted); constant potential, rigid rotation, third-order agreement of the two schemes and termination of the implicit iteration are checked.',
                note='trusted: pgv.refspline; implicit scheme compared in the contractive regime; non-termination for non-contractive potentials is a recorded known finding; grid-level clause: gridStep / gridStep_SplinesUnchanged sequences on simulated process grids.', ref='DESIGN.md section 3 C12'),
    'C13': dict(cat='exploration', tech='bounded-exhaustive enumeration of (order, grid sizes, theta spline path, iota incl. r-dependent profile, process grid / rank / radial index) x impulses against exact rational finite-difference weights and exact-rational field-line interpolation; repeated calls',
                text='Every parallel_gradient call of the lattice (objects built per rank with that rank\'s layout, each radius called repeatedly) is compared with b_z(r)/dz times the exact-weight finite-difference combination along the field line; full operator matrix for selected configurations; constants and z-shift identities.',
                note='trusted: pgv.refspline, exact Vandermonde solve; convergence order is the exact weight identity, no rates measured.', ref='DESIGN.md section 3 C13'),
    'C14': dict(cat='exploration', tech='bounded-exhaustive enumeration of (degree, cells, path, n_theta parity, coefficient menu, A, Neumann lists, quadrature degree, process count) x unit right-hand sides against an independent dense Galerkin assembly',
                text='Every mode solve for every unit impulse (discrete path) and monomial (function path) of the lattice is compared with a dense Galerkin assembly and solve written independently; Dirichlet zeros, mode independence and refusal of pure-Neumann problems are checked.',
                note='trusted: pgv.refspline basis values, numpy dense solve; uniform radial breakpoints only (DESIGN note A).', ref='DESIGN.md section 3 C14'),
    'C15': dict(cat='exploration', tech='bounded-exhaustive enumeration of (n_theta even/odd, chi, electron model, radial path, process grid) x impulse / mode / dense densities through the real distributed pipeline against numpy FFT + the dense Galerkin reference',
                text='FFT round trip, per-mode reference with the chi / kinetic conventions, realness of the potential, exact zero for the equilibrium and the equilibrium as fixed point of a complete driver step are checked for every configuration of the lattice.',
                note='trusted: numpy.fft ordering, dense Galerkin reference (C14), simmpi layouts.', ref='DESIGN.md section 3 C15'),
    'C16': dict(cat='exploration', tech='bounded-exhaustive enumeration of (n_v, v degree, process grid, real/complex storage) x unit impulses / equilibrium / dense, repeated calls on poisoned density grids, against exact-rational quadrature weights',
                text='Every density call is compared at all points with the exact integral of the interpolant (exact-rational weights) minus the equilibrium at the global radius; density grids are poisoned before every call so stale content is visible.',
                note='trusted: pgv.refspline exact weights; independently coded equilibrium.', ref='DESIGN.md section 3 C16'),
    'C17': dict(cat='exploration', tech='enumeration of (process grid, layout, field class incl. impulses) against serial quadrature of the global field; all combination orders of the reductions for <= 4 ranks',
                text='Sums over ranks of every diagnostic, min/max with every (axis, fixValue) class at every drawing rank, and the DiagnosticCollector slots over two save periods are compared with serial quadrature of the global field under every reduction order.',
                note='trusted: simmpi reductions (order supplied explicitly).', ref='DESIGN.md section 3 C17'),
    'C18': dict(cat='model_checking', tech='explicit exploration of checkpoint/restart histories on the real driver over an mpio-emulating h5py layer: all compositions of the step count into segments x save intervals x grids; exhaustive writer x reader grid round trips, checkpoint subsets and key-order permutations',
                text='State = contents of the result folder; transitions = driver segments; every history up to the bound must end in the same final checkpoints as the unsplit run; round trips between different process counts are bit-exact; latest/requested checkpoint selection is checked for every subset of a time alphabet with different digit counts; the constants file is parsed identically under all key permutations of the dependency chain.',
                note='trusted: simh5 (one shared serial file stands for an mpio file), simmpi.', ref='DESIGN.md section 3 C18'),
    'C19': dict(cat='exploration', tech='differential enumeration: scratch pyccel build of the working tree, every exported kernel called compiled vs interpreted over structural argument lattices; numba/pythran copies executed as plain Python',
                text='The documented build must succeed on the current tree and export every kernel; each kernel is called with identical arguments in both forms over lattices of structural arguments (guard slabs expose out-of-bounds writes) and must agree to 1e-13; the source copies must define the same functions and agree as plain Python.',
                note='compiled numba/pythran artefacts cannot be produced in this image and are not claimed.', ref='DESIGN.md section 3 C19'),
    'C20': dict(cat='exploration', tech='exhaustive enumeration of the (max1,max2,size) box and npts cube against brute-force divisor search; returned grids used to build layouts on the simulated MPI world',
                text='All (max1,max2,size) in the box, all npts in the cube x size and a fixed lattice of large values are compared with brute-force divisor enumeration (valid pair, error iff none exists, termination by watchdog); the three standard layouts are built, checked non-empty and round-tripped on every returned grid of the layout family.',
                note='trusted: simmpi; termination decided by per-slab wall-clock limit; the two setup entry points are driven with the selection not forced (worlds of 1..10/14 ranks, with and without a plot-only rank).', ref='DESIGN.md section 3 C20'),
}

NOT_YET = {}


def main():
    props = [json.loads(l)['id'] for l in open(os.path.join(HERE, 'properties.jsonl'))]
    checks = []
    for pid in props:
        if pid not in CHECKS:
            continue
        c = CHECKS[pid]
        checks.append({
            'property_id': pid,
            'quick_cmd': './run_check.py %s --tier quick' % pid,
            'thorough_cmd': './run_check.py %s --tier thorough' % pid,
            'evidence_file': 'evidence/%s.json' % pid,
            'replay_cmd_template': './run_check.py %s --replay {path}' % pid,
            'engine': 'pgv',
            'level_claimed': {'category': c['cat'], 'text': c['text'], 'design_ref': c['ref']},
            'level_note': c['note'],
            'technique': c['tech'],
        })
    na = [{'property_id': p, 'reason': NOT_YET.get(p, 'check not built yet in this round (model-checking design exists in DESIGN.md section 3); not claimed until its check is committed')}
          for p in props if p not in CHECKS]
    man = {
        'version': 1,
        'setup_cmd': '/venv/bin/python tools/selftest.py',
        'hooks': {
            'guard': 'PYGYRO_VERIF',
            'enable': 'no source hooks are needed: the harness injects a simulated mpi4py / mpio-h5py through sys.modules and module namespaces; PYGYRO_VERIF=1 is set by the harness for completeness',
            'baseline_off_cmd': 'cd /repo && /venv/bin/python -m pytest -ra -q -p no:cacheprovider --timeout=900 --continue-on-collection-errors',
            'source_commits': [],
            'add_only': True,
        },
        'engines': [
            {'name': 'pgv', 'path': 'pgv/', 'serves_properties': sorted(CHECKS),
             'kind_free_text': 'hand-written explicit-state / stateless explorer in Python: simulated MPI world with controlled scheduler (pgv/simmpi.py), mpio-h5py shim (pgv/simh5.py), deviation-bounded choice explorer (pgv/explore.py), exact-rational B-spline reference (pgv/refspline.py), process-pool runner with evidence/known-findings/replay handling (pgv/runner.py)'}],
        'checks': checks,
        'not_applicable': na,
        'notes': 'All checks are run as ./run_check.py <ID> --tier quick|thorough from /verif; they import pygyro from /repo\'s working-tree sources. Known findings: KNOWN_FINDINGS.txt.',
    }
    if not na:
        man['not_applicable'] = []
    with open(os.path.join(HERE, 'MANIFEST.json'), 'w') as f:
        json.dump(man, f, indent=1)
    print('MANIFEST.json: %d checks, %d not claimed' % (len(checks), len(na)))


if __name__ == '__main__':
    main()
