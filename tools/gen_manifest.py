#!/venv/bin/python
"""Regenerates /verif/MANIFEST.json from the table below (keeps it schema-valid)."""
import json
import os

HERE = os.path.dirname(os.path.dirname(os.path.abspath(__file__)))

CHECKS = {
    'C01': dict(cat='exploration', tech='bounded-exhaustive enumeration of (shape, process grid, layout set, pair, dtype, buffer) executed on the real LayoutHandler in a simulated MPI world, compared with a global-array reference model',
                text='Every ordered layout pair of every enumerated (array rank 2-4, shape, grid, layout set) is executed on all simulated ranks of the real code and compared exactly with a global array; exhaustive within the stated alphabets, which contain every extent class (p, p+1, 2p-1, 2p, 2p+1), grids with leading/trailing extent 1 and routes of 1-4 steps of both buffer parities.',
                note='trusted: simmpi (Alltoall, Create_cart, Sub semantics), numpy; value-independence of data movement (one injective pattern per dtype).', ref='DESIGN.md section 3 C01'),
    'C20': dict(cat='exploration', tech='exhaustive enumeration of the (max1,max2,size) box and npts cube against brute-force divisor search; returned grids used to build layouts on the simulated MPI world',
                text='All (max1,max2,size) in the box, all npts in the cube x size and a fixed lattice of large values are compared with brute-force divisor enumeration (valid pair, error iff none exists, termination by watchdog); the three standard layouts are built, checked non-empty and round-tripped on every returned grid of the layout family.',
                note='trusted: simmpi; termination decided by per-slab wall-clock limit.', ref='DESIGN.md section 3 C20'),
}

NOT_YET = {}


def main():
    props = [json.loads(l)['id'] for l in open(os.path.join(HERE, 'properties.jsonl'))]
    checks = []
    for pid in props:
        if pid not in CHECKS:
            continue
        c = CHECKS[pid]
        checks.append({
            'property_id': pid,
            'quick_cmd': './run_check.py %s --tier quick' % pid,
            'thorough_cmd': './run_check.py %s --tier thorough' % pid,
            'evidence_file': 'evidence/%s.json' % pid,
            'replay_cmd_template': './run_check.py %s --replay {path}' % pid,
            'engine': 'pgv',
            'level_claimed': {'category': c['cat'], 'text': c['text'], 'design_ref': c['ref']},
            'level_note': c['note'],
            'technique': c['tech'],
        })
    na = [{'property_id': p, 'reason': NOT_YET.get(p, 'check not built yet in this round (model-checking design exists in DESIGN.md section 3); not claimed until its check is committed')}
          for p in props if p not in CHECKS]
    man = {
        'version': 1,
        'setup_cmd': '/venv/bin/python tools/selftest.py',
        'hooks': {
            'guard': 'PYGYRO_VERIF',
            'enable': 'no source hooks are needed: the harness injects a simulated mpi4py / mpio-h5py through sys.modules and module namespaces; PYGYRO_VERIF=1 is set by the harness for completeness',
            'baseline_off_cmd': 'cd /repo && /venv/bin/python -m pytest -ra -q -p no:cacheprovider --timeout=900 --continue-on-collection-errors',
            'source_commits': [],
            'add_only': True,
        },
        'engines': [
            {'name': 'pgv', 'path': 'pgv/', 'serves_properties': sorted(CHECKS),
             'kind_free_text': 'hand-written explicit-state / stateless explorer in Python: simulated MPI world with controlled scheduler (pgv/simmpi.py), mpio-h5py shim (pgv/simh5.py), deviation-bounded choice explorer (pgv/explore.py), exact-rational B-spline reference (pgv/refspline.py), process-pool runner with evidence/known-findings/replay handling (pgv/runner.py)'}],
        'checks': checks,
        'not_applicable': na,
        'notes': 'All checks are run as ./run_check.py <ID> --tier quick|thorough from /verif; they import pygyro from /repo\'s working-tree sources. Known findings: KNOWN_FINDINGS.txt.',
    }
    if not na:
        man['not_applicable'] = []
    with open(os.path.join(HERE, 'MANIFEST.json'), 'w') as f:
        json.dump(man, f, indent=1)
    print('MANIFEST.json: %d checks, %d not claimed' % (len(checks), len(na)))


if __name__ == '__main__':
    main()
