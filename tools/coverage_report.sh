#!/bin/bash
# development aid: line coverage of /repo's library source under the union of all checks of a tier
# usage: tools/coverage_report.sh [quick|thorough] [IDs...]   -> /var/tmp/pygyro-verif-cov/report.txt
tier=${1:-quick}; shift
ids=${@:-C01 C02 C03 C04 C05 C06 C07 C08 C09 C10 C11 C12 C13 C14 C15 C16 C17 C18 C19 C20}
cd "$(dirname "$0")/.."
d=/var/tmp/pygyro-verif-cov; rm -rf $d; mkdir -p $d
for id in $ids; do VERIF_COVER=$d VERIF_COVER_BRANCH=${VERIF_COVER_BRANCH:-} COVERAGE_CORE=${COVERAGE_CORE:-sysmon} ./run_check.py $id --tier $tier 2>&1 | tail -1; done
git checkout -- evidence 2>/dev/null
cd $d && /venv/bin/python -m coverage combine --data-file=$d/all $d/cov.* >/dev/null 2>&1
/venv/bin/python -m coverage report --data-file=$d/all --include='/repo/pygyro/*,/repo/fullSimulation.py' --omit='*/tests/*,*/pythran_*,*/numba_*' -m > $d/report.txt 2>&1
tail -5 $d/report.txt
