import json,sys
pid=sys.argv[1]; tag=sys.argv[2] if len(sys.argv)>2 else pid; used=json.load(open(''+__import__('os').path.dirname(__import__('os').path.abspath(__file__))+'/used_ideas.json')).get(pid,''); hint=sys.argv[3] if len(sys.argv)>3 else ''
for l in open('/verif/properties.jsonl'):
    d=json.loads(l)
    if d['id']==pid: break
print(f"""You are helping to evaluate a verification effort by planting a realistic defect ("seeded change") in a scientific Python code base.

Code base: pyccel/pygyro (Python/MPI library for gyrokinetic plasma simulation). You have your OWN scratch git worktree of it at /tmp/wt/{tag} — work ONLY there (never touch /repo or /verif, and do not read anything under /verif). Use /venv/bin/python (numpy, scipy, h5py, pyccel, pytest are installed; pygyro is importable from the worktree if you put the worktree first on sys.path / run from inside it).

Important facts about this sandbox: there is no network, and NO MPI library: `from mpi4py import MPI` fails, so modules that import mpi4py (layout, grid, advection, poisson, diagnostics, setups, savingTools, fullSimulation) cannot be imported as they are, and the repository's own test suite only collects the spline, constants and process-grid tests. If your demonstration needs those modules, write a small fake `mpi4py` yourself inside your demonstration (e.g. insert a stub module into sys.modules before importing pygyro: a single-rank COMM_WORLD is easy; if you need several ranks, simulate them with threads or by calling the per-rank code in a loop with hand-made communicators). h5py is the serial build.

The semantic property that should hold for pygyro:

  ID: {d['id']}
  Title: {d['title']}
  Statement: {d['statement']}
  Quantified over: {d['quantifier']['text']}
  Where it lives: {json.dumps(d['anchors'])}

YOUR TASK: make ONE small change to the library source in /tmp/wt/{tag} (a few lines, the kind of slip a maintainer could plausibly make while refactoring or optimising) such that
  (a) the property above is BROKEN by the change,
  (b) the code still imports/compiles, and the repository's existing test suite still passes exactly as before. Run it to be sure:
        cd /tmp/wt/{tag} && /venv/bin/python -m pytest -q -p no:cacheprovider --timeout=900 --continue-on-collection-errors -n 8 2>&1 | tail -5
      (expected both before and after your change: 2074 passed and 128 collection errors caused by the missing MPI library),
  (c) the breakage needs something SPECIFIC to manifest — a particular input shape or size class, a particular process-grid shape, a multi-step sequence of operations, an unusual-but-legal argument, a particular interleaving/arrival order, or two cooperating sites that each look fine alone. Do NOT make a change that ordinary default use would expose at once (e.g. not "always returns garbage").
  Prefer changes in shared state, index/offset arithmetic, boundary cases, buffer handling, or branch conditions.
  An earlier volunteer already used this idea, so choose a DIFFERENT site and mechanism: "{used}". {hint}

DELIVERABLES — write them to /tmp/wtout/{tag}/ :
  1. patch.diff  — output of `git -C /tmp/wt/{tag} diff` (must apply to the worktree's HEAD with `git apply`).
  2. demo.py (or demo_test.py) — a self-contained demonstration program that exits non-zero / fails WITH your change and exits 0 / passes WITHOUT it. It must take the path of the pygyro tree to use as its first command-line argument (or env PYGYRO_TREE) so that it can be run against either tree. It must not depend on anything under /verif.
  3. notes.md — which property it breaks, exactly what is needed for the breakage to manifest, why the existing tests do not notice, and the commands you ran with their observed results (test-suite result with the change; demo result with and without the change).
Verify all of this yourself before finishing: run the demo against the patched worktree (must fail) and against a clean checkout (use /repo READ-ONLY as the clean tree, or `git -C /tmp/wt/{tag} diff > p.diff && git -C /tmp/wt/{tag} apply -R p.diff` to undo temporarily; NEVER use `git stash`: the stash is shared between all worktrees of this repository and other agents are working in sibling worktrees right now) (must pass). Leave the worktree with your change applied. Keep your final answer short: the one-line description of the change and whether (a)-(c) were confirmed.""")
