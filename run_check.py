#!/venv/bin/python
"""Entry point: run_check.py <PROPERTY-ID> [--tier quick|thorough] [--replay file]"""
import os
import sys

HERE = os.path.dirname(os.path.abspath(__file__))
sys.path.insert(0, HERE)
os.chdir(HERE)
os.environ.setdefault('PYTHONHASHSEED', '0')

if __name__ == '__main__':
    if len(sys.argv) < 2:
        print(__doc__)
        sys.exit(2)
    pid = sys.argv[1].upper()
    from pgv import runner
    sys.exit(runner.main('checks.%s' % pid.lower(), sys.argv[2:]))
